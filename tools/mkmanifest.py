#!/usr/bin/env python3
"""Regenerates /verif/MANIFEST.json from the table below (single source of truth)."""
import json, os, sys
ROOT = os.path.dirname(os.path.dirname(os.path.abspath(__file__)))
BASELINE_OFF = "cd /repo && env -u OFFSCALE_CDD_PYTHON_VERIF /venv/bin/python -m pytest -ra -q -p no:cacheprovider --timeout=900 --continue-on-collection-errors"

# id -> (technique, level text, level note, design ref)
CHECKS = {
 "C01": ("runtime contract (icontract postcondition) on the real docstring emitter, re-parse oracle over a generated class matrix + seeded random interfaces",
         "Held on every emitter call observed: class-matrix (type kind x default kind x position) exhaustively plus seeded random interfaces x 3 styles x 8 flag combinations, each re-parsed twice; exploration, not proof — says nothing about interface shapes outside the generated classes.",
         "Trusts CPython, icontract, the harness comparator (ircmp); deviations that match a mechanism listed in known_findings.json are reported as KNOWN-FINDING.", "3 C01"),
}
NOT_YET = {}

def main():
    props = [json.loads(l) for l in open(os.path.join(ROOT, "properties.jsonl"))]
    checks, na = [], []
    for p in props:
        pid = p["id"]
        if pid in CHECKS:
            tech, text, note, ref = CHECKS[pid]
            checks.append({
                "property_id": pid,
                "quick_cmd": "./check %s --tier quick" % pid,
                "thorough_cmd": "./check %s --tier thorough" % pid,
                "evidence_file": "evidence/%s.json" % pid,
                "replay_cmd_template": "./check %s --replay {path}" % pid,
                "engine": "vcdd",
                "level_claimed": {"category": "exploration", "text": text, "design_ref": "DESIGN.md section " + ref},
                "level_note": note,
                "technique": tech,
            })
        else:
            na.append({"property_id": pid, "reason": NOT_YET.get(pid, "check not built yet in this round (planned: runtime monitor per DESIGN.md section 3); not claimed")})
    m = {
        "version": 1,
        "setup_cmd": "./setup.sh",
        "hooks": {
            "guard": "OFFSCALE_CDD_PYTHON_VERIF",
            "enable": "no source hooks: every observation point is reached from outside (module attributes wrapped by contracts, sys.addaudithook, sys.monitoring, file-system snapshots, subprocess boundaries); ./check exports OFFSCALE_CDD_PYTHON_VERIF=1 for uniformity and runs /venv/bin/python with PYTHONPATH=/repo so the current working tree is what executes",
            "baseline_off_cmd": BASELINE_OFF,
            "source_commits": [],
            "add_only": True,
        },
        "engines": [{"name": "vcdd", "path": "vcdd/", "serves_properties": sorted(CHECKS),
                     "kind_free_text": "runtime monitoring: contracts on real functions, audit hooks, sys.monitoring step budgets, file-system snapshot diffs, subprocess differential runs; generated/enumerated/hostile workloads"}],
        "checks": checks,
        "not_applicable": na,
        "notes": "Repository repairs are separate 'fix:' commits in /repo (see known_findings.json entries with status fixed). Exit codes: 0 held on what was observed, 1 violation, 2 inconclusive (a deciding monitor never evaluated / watchdog fired).",
    }
    json.dump(m, open(os.path.join(ROOT, "MANIFEST.json"), "w"), indent=1)
    print("MANIFEST.json: %d checks, %d not claimed" % (len(checks), len(na)))

if __name__ == "__main__":
    main()
