#!/usr/bin/env python3
"""Regenerates /verif/MANIFEST.json from the table below (single source of truth)."""
import json, os, sys
ROOT = os.path.dirname(os.path.dirname(os.path.abspath(__file__)))
BASELINE_OFF = "cd /repo && env -u OFFSCALE_CDD_PYTHON_VERIF /venv/bin/python -m pytest -ra -q -p no:cacheprovider --timeout=900 --continue-on-collection-errors"

# id -> (technique, level text, level note, design ref)
NOTE = "Trusts CPython (ast, inspect, argparse, tokenize, audit hooks, sys.monitoring), icontract, jsonschema and the harness' own generators/comparators; deviations whose mechanism key is listed as open in known_findings.json are reported as KNOWN-FINDING, anything else is a VIOLATION; a run whose deciding monitor never evaluated exits 2 (inconclusive)."
CHECKS = {
 "C01": ("runtime contract (icontract postcondition) on the real docstring emitter; re-parse oracle; class-matrix + seeded random interfaces",
         "Held on every emitter call observed: type-kind x default-kind x position matrix plus seeded random interfaces x 3 styles x emit_default_doc x emit_types x word_wrap (plus indent_level 1..3 / separating tab read back through cleandoc, empty descriptions, wrapped descriptions), each re-parsed with prose defaults kept and stripped. Exploration: says nothing about interface shapes outside the generated classes.", NOTE, "3 C01"),
 "C02": ("runtime contracts on the four real emitters (class, pydantic, function, argparse): render, re-read text, matching parser, IR comparison; render-stability monitor",
         "Held on every emission observed over the signature-legal matrix + random interfaces x 3 docstring styles x emit_default_doc x type_annotations x kw-only x function_type (static/self/cls/None); only the documented normalisations are applied.", NOTE, "3 C02"),
 "C03": ("history monitor over conversion sequences: IR observed after every hop of a complete prefix tree (all sequences of length <= 3 over 5 formats) plus sampled length 4-5",
         "Every node of the prefix tree equals the start, hence any two sequences commute, for every generated interface; exhaustive over sequences <= 3 per interface, sampled beyond.", NOTE, "3 C03"),
 "C04": ("execution oracle: emitted source compiled and exec'd; class attributes/__annotations__, inspect.signature and a really populated ArgumentParser (+parse_args) compared with the description",
         "CPython, inspect and argparse are the oracle for every emitted program over the executable domain x 4 emitters x options; unparse/re-parse AST equality (negative literals folded).", NOTE, "3 C04"),
 "C05": ("runtime contracts on the three real SQLAlchemy emitters: re-parse with the matching parser, primary_key keyword count, cross-variant agreement",
         "Held for every emission observed over the SQL-representable domain x 3 variants x 3 styles x force_pk_id, with declared / inferred / ambiguous primary keys and foreign keys.", NOTE, "3 C05"),
 "C06": ("runtime contract on the real json_schema emitter with reference validators (jsonschema Draft 2020-12 meta-schema, instance validation of defaults, re.fullmatch on Literal patterns) and round trip through the real parser",
         "Every emitted schema is validated against the 2020-12 meta-schema, required<->Optional, defaults against their own property schema, Literal patterns against members and near-miss probes, and parsed back.", NOTE, "3 C06"),
 "C09": ("runtime contracts on the real cst_parse / cst_scanner (concatenation identity, line tiling); exhaustive token-sequence enumeration (two alphabets) + repository files + seeded mutants + string-expression statements",
         "Exhaustive over all sequences of length <= 4 (quick) / <= 5 (thorough, 5.4 M strings) of a 22-token lexical alphabet, a deeper sweep (length 5..6 / ..7) over the 8 tokens that open, close and join string literals, every repository .py file within the size bound, seeded mutations and seeded string-expression statements; each checked for byte-exact reconstruction and line tiling.", NOTE, "3 C09"),
 "C14": ("runtime contracts (shape invariant) on all ten real parser entry points; emitter-produced sources, grammar-generated docstrings, generated rich signatures, random token text, the repository's own definitions / docstrings (corpus) and its test-suite run as a workload under the contracts",
         "The documented IR shape is asserted on every parser return observed (hundreds of thousands in the thorough tier); function.parse additionally checked for 'every signature parameter exactly once'.", NOTE, "3 C14"),
 "C07": ("process-boundary monitor of the real doctrans (API and CLI): file bytes before/after, erased-AST equality, comment-token sequence, alignment-free line identity, file-system snapshot diff, source-free failpoint (sys.monitoring) for the fails-midway clause; generated modules and the repository's own source files",
         "Held on every observed run over generated modules x target style x type_annotations x word-wrap, applied twice; the failpoint raises inside the conversion at seeded line events and the file must stay byte-identical.", NOTE, "3 C07"),
 "C08": ("history monitor: IR after rounds 1..4 of emit->render->parse per format, exact canonical comparison between consecutive rounds",
         "Held on every (interface, format, style) history observed over a deliberately wide interface domain x 9 formats; drift mechanisms that are genuine defects are keyed known findings.", NOTE, "3 C08"),
 "C10": ("configuration-differential monitor: one generated bundle of invocations run in fresh interpreters differing only in PYTHONHASHSEED and call history; sha256 per case compared across configurations; shared-description kind (one interface description object through every ordered pair of emitters)",
         "Held for every invocation of the bundle across the sampled hash seeds (0..3+random quick, 0..15+4 random thorough) x 4 call histories; a dependence showing for one seed in 2^32 is out of reach.", NOTE, "3 C10"),
 "C11": ("step-budget monitor (sys.monitoring LINE events scoped to the package): bounded progress in logical time, budget-exceeded raised inside the spinning frame; signal.alarm watchdog only inconclusive; growth mode (k vs 2k) for work that doubles per level",
         "Every monitored call finished within an input-size dependent budget of line events; exhaustive docstring token sequences to length 3 (quick) / 4 (thorough), hostile interfaces (format / regex characters in the prose) through all nine emitters and the parsers of their output x styles x indents, generated modules x doctrans x1..3. Termination is decided as bounded progress.", NOTE, "3 C11"),
 "C12": ("process-boundary monitor of the real `python -m cdd sync` under file-system snapshots: targets re-parsed with the real parsers and compared with the truth, AST of everything else, byte-idempotence of runs 2..3",
         "Held on every triple x truth x run observed (targets differing / missing / empty / absent); the defect that function targets are never rewritten is a keyed known finding.", NOTE, "3 C12"),
 "C13": ("process-boundary monitor of the real `python -m cdd sync_properties`: masked-AST equality (everything but the selected location), location name/annotation oracle, input bytes, file-system snapshot",
         "Held on every invocation observed over generated module pairs x path kinds x wrap x eval, including directed same-name cases.", NOTE, "3 C13"),
 "C15": ("runtime contract on the real header/args/footer split (concatenation identity) + conversion monitor through both real parsers and emitters (header lines in order, header region, absorption into types/defaults); grammar-generated docstrings and the repository's own docstrings (corpus)",
         "Held on every split and every (source style, target style, route) conversion observed over grammar-generated docstrings at indentation 0..2 with footers.", NOTE, "3 C15"),
 "C16": ("observed return values of the real OpenAPI emitter and of gen_routes -> routes file -> openapi_bulk, checked by a reference $ref resolver, path-parameter check, operation-set check and the model's own json-schema",
         "Held on every document observed (1..3 models, CRUD subsets, prefixes, app names, shared / separate routes files).", NOTE, "3 C16"),
 "C17": ("audit-hook monitor (sys.addaudithook) in fresh subprocesses, armed only during each real cdd call on adversarial inputs; opcode inspection of exec'd code objects, canary module, canary callables planted in builtins, sys.modules comparison, sentinel files; self-test with --input-eval",
         "No violating audit event and no sentinel for any monitored call over adversarial docstrings, interfaces, modules and route docstrings (python-tagged YAML); the monitor is proven live each run by the --input-eval self-test and by counting the allowed type-name probes it saw.", NOTE, "3 C17"),
 "C19": ("process-boundary monitor of the real `python -m cdd gen` under file-system snapshots: compile, symbol/__all__ oracle, re-parse of each generated symbol, free-name import resolution, non-clobbering",
         "Held on every invocation observed over the parse-kind x emit-kind matrix x templates x import inference x prepend x existing output x input mapping as file or directory of modules; configurations this tree rejects are enumerated so that any other failure is a deviation.", NOTE, "3 C19"),
 "C20": ("process-boundary monitor of the real `python -m cdd exmod` in a throw-away venv: audit-event wrapper (write-mode opens, mkdir, remove...) + file-system snapshot of venv, package, output and parents",
         "Held on every invocation observed over generated package trees x emit kind x recursive x blacklist/whitelist x dry-run x output location (outside, inside the package, nested-absent, named like the target module, named after the exposed module) x --target-module-name.", NOTE, "3 C20"),
 "C18": ("import-history monitor: fresh interpreter per first module (audit hook records the import chain), ordered pairs by fork after the first import; comparison between orders of the bound public names and of every non-underscore binding with its target, for every package module loaded",
         "Exhaustive over first imports of all non-test modules; ordered pairs sampled symmetrically (quick, 50%) or exhaustive (thorough, all ordered pairs).", NOTE, "3 C18"),
}
NOT_YET = {}

def main():
    props = [json.loads(l) for l in open(os.path.join(ROOT, "properties.jsonl"))]
    checks, na = [], []
    for p in props:
        pid = p["id"]
        if pid in CHECKS:
            tech, text, note, ref = CHECKS[pid]
            checks.append({
                "property_id": pid,
                "quick_cmd": "./check %s --tier quick" % pid,
                "thorough_cmd": "./check %s --tier thorough" % pid,
                "evidence_file": "evidence/%s.json" % pid,
                "replay_cmd_template": "./check %s --replay {path}" % pid,
                "engine": "vcdd",
                "level_claimed": {"category": "exploration", "text": text, "design_ref": "DESIGN.md section " + ref},
                "level_note": note,
                "technique": tech,
            })
        else:
            na.append({"property_id": pid, "reason": NOT_YET.get(pid, "check not built yet in this round (planned: runtime monitor per DESIGN.md section 3); not claimed")})
    m = {
        "version": 1,
        "setup_cmd": "./setup.sh",
        "hooks": {
            "guard": "OFFSCALE_CDD_PYTHON_VERIF",
            "enable": "no source hooks: every observation point is reached from outside (module attributes wrapped by contracts, sys.addaudithook, sys.monitoring, file-system snapshots, subprocess boundaries); ./check exports OFFSCALE_CDD_PYTHON_VERIF=1 for uniformity and runs /venv/bin/python with PYTHONPATH=/repo so the current working tree is what executes",
            "baseline_off_cmd": BASELINE_OFF,
            "source_commits": [],
            "add_only": True,
        },
        "engines": [{"name": "vcdd", "path": "vcdd/", "serves_properties": sorted(CHECKS),
                     "kind_free_text": "runtime monitoring: contracts on real functions, audit hooks, sys.monitoring step budgets, file-system snapshot diffs, subprocess differential runs; generated/enumerated/hostile workloads"}],
        "checks": checks,
        "not_applicable": na,
        "notes": "Repository repairs are separate 'fix:' commits in /repo (see known_findings.json entries with status fixed). Exit codes: 0 held on what was observed, 1 violation, 2 inconclusive (a deciding monitor never evaluated / watchdog fired).",
    }
    json.dump(m, open(os.path.join(ROOT, "MANIFEST.json"), "w"), indent=1)
    print("MANIFEST.json: %d checks, %d not claimed" % (len(checks), len(na)))

if __name__ == "__main__":
    main()
