#!/usr/bin/env python3
"""Regenerates /verif/MANIFEST.json from the table below (single source of truth)."""
import json, os, sys
ROOT = os.path.dirname(os.path.dirname(os.path.abspath(__file__)))
BASELINE_OFF = "cd /repo && env -u OFFSCALE_CDD_PYTHON_VERIF /venv/bin/python -m pytest -ra -q -p no:cacheprovider --timeout=900 --continue-on-collection-errors"

# id -> (technique, level text, level note, design ref)
NOTE = "Trusts CPython (ast, inspect, argparse, tokenize, audit hooks, sys.monitoring), icontract, jsonschema and the harness' own generators/comparators; deviations whose mechanism key is listed as open in known_findings.json are reported as KNOWN-FINDING, anything else is a VIOLATION; a run whose deciding monitor never evaluated exits 2 (inconclusive)."
CHECKS = {
 "C01": ("runtime contract (icontract postcondition) on the real docstring emitter; re-parse oracle; class-matrix + seeded random interfaces",
         "Held on every emitter call observed: type-kind x default-kind x position matrix plus seeded random interfaces x 3 styles x emit_default_doc x emit_types x word_wrap, each re-parsed with prose defaults kept and stripped. Exploration: says nothing about interface shapes outside the generated classes.", NOTE, "3 C01"),
 "C02": ("runtime contracts on the four real emitters (class, pydantic, function, argparse): render, re-read text, matching parser, IR comparison; render-stability monitor",
         "Held on every emission observed over the signature-legal matrix + random interfaces x 3 docstring styles x emit_default_doc x type_annotations x kw-only; only the documented normalisations are applied.", NOTE, "3 C02"),
 "C03": ("history monitor over conversion sequences: IR observed after every hop of a complete prefix tree (all sequences of length <= 3 over 5 formats) plus sampled length 4-5",
         "Every node of the prefix tree equals the start, hence any two sequences commute, for every generated interface; exhaustive over sequences <= 3 per interface, sampled beyond.", NOTE, "3 C03"),
 "C04": ("execution oracle: emitted source compiled and exec'd; class attributes/__annotations__, inspect.signature and a really populated ArgumentParser (+parse_args) compared with the description",
         "CPython, inspect and argparse are the oracle for every emitted program over the executable domain x 4 emitters x options; unparse/re-parse AST equality (negative literals folded).", NOTE, "3 C04"),
 "C05": ("runtime contracts on the three real SQLAlchemy emitters: re-parse with the matching parser, primary_key keyword count, cross-variant agreement",
         "Held for every emission observed over the SQL-representable domain x 3 variants x 3 styles x force_pk_id, with declared / inferred / ambiguous primary keys and foreign keys.", NOTE, "3 C05"),
 "C06": ("runtime contract on the real json_schema emitter with reference validators (jsonschema Draft 2020-12 meta-schema, instance validation of defaults, re.fullmatch on Literal patterns) and round trip through the real parser",
         "Every emitted schema is validated against the 2020-12 meta-schema, required<->Optional, defaults against their own property schema, Literal patterns against members and near-miss probes, and parsed back.", NOTE, "3 C06"),
 "C09": ("runtime contracts on the real cst_parse / cst_scanner (concatenation identity, line tiling); exhaustive token-sequence enumeration + repository files + seeded mutants",
         "Exhaustive over all sequences of length <= 4 (quick) / <= 5 (thorough, 5.4 M strings) of a 22-token lexical alphabet, every repository .py file within the size bound, and seeded mutations; each checked for byte-exact reconstruction and line tiling.", NOTE, "3 C09"),
 "C14": ("runtime contracts (shape invariant) on all ten real parser entry points; emitter-produced sources, grammar-generated docstrings, generated rich signatures, random token text",
         "The documented IR shape is asserted on every parser return observed (hundreds of thousands in the thorough tier); function.parse additionally checked for 'every signature parameter exactly once'.", NOTE, "3 C14"),
 "C18": ("import-history monitor: fresh interpreter per first module (audit hook records the import chain), ordered pairs by fork after the first import; public-name comparison between orders",
         "Exhaustive over first imports of all non-test modules; ordered pairs sampled symmetrically (quick, 50%) or exhaustive (thorough, all ordered pairs).", NOTE, "3 C18"),
}
NOT_YET = {}

def main():
    props = [json.loads(l) for l in open(os.path.join(ROOT, "properties.jsonl"))]
    checks, na = [], []
    for p in props:
        pid = p["id"]
        if pid in CHECKS:
            tech, text, note, ref = CHECKS[pid]
            checks.append({
                "property_id": pid,
                "quick_cmd": "./check %s --tier quick" % pid,
                "thorough_cmd": "./check %s --tier thorough" % pid,
                "evidence_file": "evidence/%s.json" % pid,
                "replay_cmd_template": "./check %s --replay {path}" % pid,
                "engine": "vcdd",
                "level_claimed": {"category": "exploration", "text": text, "design_ref": "DESIGN.md section " + ref},
                "level_note": note,
                "technique": tech,
            })
        else:
            na.append({"property_id": pid, "reason": NOT_YET.get(pid, "check not built yet in this round (planned: runtime monitor per DESIGN.md section 3); not claimed")})
    m = {
        "version": 1,
        "setup_cmd": "./setup.sh",
        "hooks": {
            "guard": "OFFSCALE_CDD_PYTHON_VERIF",
            "enable": "no source hooks: every observation point is reached from outside (module attributes wrapped by contracts, sys.addaudithook, sys.monitoring, file-system snapshots, subprocess boundaries); ./check exports OFFSCALE_CDD_PYTHON_VERIF=1 for uniformity and runs /venv/bin/python with PYTHONPATH=/repo so the current working tree is what executes",
            "baseline_off_cmd": BASELINE_OFF,
            "source_commits": [],
            "add_only": True,
        },
        "engines": [{"name": "vcdd", "path": "vcdd/", "serves_properties": sorted(CHECKS),
                     "kind_free_text": "runtime monitoring: contracts on real functions, audit hooks, sys.monitoring step budgets, file-system snapshot diffs, subprocess differential runs; generated/enumerated/hostile workloads"}],
        "checks": checks,
        "not_applicable": na,
        "notes": "Repository repairs are separate 'fix:' commits in /repo (see known_findings.json entries with status fixed). Exit codes: 0 held on what was observed, 1 violation, 2 inconclusive (a deciding monitor never evaluated / watchdog fired).",
    }
    json.dump(m, open(os.path.join(ROOT, "MANIFEST.json"), "w"), indent=1)
    print("MANIFEST.json: %d checks, %d not claimed" % (len(checks), len(na)))

if __name__ == "__main__":
    main()
