#!/bin/bash
# Run the repository's pinned test suite on a tree (default /repo) and compare the pass set with BASELINE.json.
# usage: tools/run_baseline.sh [tree]
TREE=${1:-/repo}
OUT=$(mktemp -d)
cd "$TREE" && PYTHONPATH="$TREE" /venv/bin/python -m pytest -ra -q -p no:cacheprovider --timeout=900 --continue-on-collection-errors --junitxml="$OUT/j.xml" >"$OUT/log" 2>&1
tail -3 "$OUT/log"
/venv/bin/python - "$OUT/j.xml" <<'PY'
import sys, json, xml.etree.ElementTree as ET
b = json.load(open('/root/.vp/BASELINE.json'))
stable = set(b['stable_pass'])
passed = set()
for tc in ET.parse(sys.argv[1]).getroot().iter('testcase'):
    ok = not any(c.tag in ('failure', 'error', 'skipped') for c in tc)
    if ok:
        passed.add('%s::%s' % (tc.get('classname'), tc.get('name')))
missing = sorted(stable - passed)
print('stable_pass=%d passed_now=%d missing_from_stable=%d' % (len(stable), len(passed), len(missing)))
for m in missing: print('  MISSING', m)
sys.exit(1 if missing else 0)
PY
rc=$?
rm -rf "$OUT"
exit $rc
