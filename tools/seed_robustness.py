"""for every stored seeded change: is it reported for each of VERIF_SEED = 0..3 (quick tier)?  Uses scratch worktrees
under /tmp/rb (removed afterwards); records meta.json["robustness"] = {check: {seed: exit code}}."""
import glob, json, os, subprocess, sys
from concurrent.futures import ThreadPoolExecutor

SEEDS = (0, 2)
sel = sys.argv[1:]
head = subprocess.run(["git", "-C", "/repo", "rev-parse", "HEAD"], capture_output=True).stdout.decode().strip()
os.makedirs("/tmp/rb", exist_ok=True)


def work(meta_p):
    d = os.path.dirname(meta_p)
    m = json.load(open(meta_p))
    sid = m["seed_id"]
    wt = "/tmp/rb/" + sid
    subprocess.run(["git", "-C", "/repo", "worktree", "remove", "--force", wt], capture_output=True)
    subprocess.run(["git", "-C", "/repo", "worktree", "add", "-q", "--detach", wt, head], check=True)
    try:
        ap = subprocess.run(["git", "-C", wt, "apply", os.path.join(d, "patch.diff")], capture_output=True)
        if ap.returncode != 0:
            return sid, "does not apply"
        checks = [c.split()[0] for c in m.get("caught_by", [])][:1] or [m["breaks_property"]]
        res = {}
        for c in checks:
            res[c] = {}
            for s in SEEDS:
                pr = subprocess.run(["./check", c, "--tier", "quick"], cwd="/verif", capture_output=True,
                                    env=dict(os.environ, VERIF_SEED=str(s), VCDD_REPO=wt))
                res[c][str(s)] = pr.returncode
        m["robustness"] = {"repo_head": head[:7], "exit_code_by_check_and_VERIF_SEED": res}
        json.dump(m, open(meta_p, "w"), indent=1)
        return sid, res
    finally:
        subprocess.run(["git", "-C", "/repo", "worktree", "remove", "--force", wt], capture_output=True)


metas = [p for p in sorted(glob.glob("/verif/seeded/*/meta.json"))
         if (not sel or any(s in p for s in sel)) and "robustness" not in json.load(open(p))]
with ThreadPoolExecutor(max_workers=2) as ex:
    for sid, res in ex.map(work, metas):
        print(sid, res, flush=True)
