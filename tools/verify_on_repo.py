"""apply each stored seeded change to /repo itself, run the check(s) that caught it, undo; record in meta.json"""
import glob, json, os, subprocess, sys

sel = sys.argv[1:] or None
assert subprocess.run(["git", "-C", "/repo", "status", "--porcelain"], capture_output=True).stdout == b"", "/repo not clean"
for meta_p in sorted(glob.glob("/verif/seeded/*/meta.json")):
    d = os.path.dirname(meta_p)
    m = json.load(open(meta_p))
    sid = m["seed_id"]
    if sel and not any(sid.endswith(s) or sid == s for s in sel):
        continue
    patch = os.path.join(d, "patch.diff")
    chk = subprocess.run(["git", "-C", "/repo", "apply", "--check", patch], capture_output=True)
    if chk.returncode != 0:
        m.setdefault("verified_by_applying_to_repo", {"check_exit": None, "how": "patch does not apply to the current /repo: %s" % chk.stderr.decode().strip()[:200]})
        json.dump(m, open(meta_p, "w"), indent=1)
        print(sid, "DOES NOT APPLY")
        continue
    checks = [c.split()[0] for c in m.get("caught_by", []) if c.split()[0] in m.get("results", {}) or True][:2]
    res = {}
    subprocess.run(["git", "-C", "/repo", "apply", patch], check=True)
    try:
        for c in checks:
            pr = subprocess.run(["./check", c, "--tier", "quick"], cwd="/verif", capture_output=True, env=dict(os.environ, VERIF_SEED="1"))
            res[c] = pr.returncode
    finally:
        subprocess.run(["git", "-C", "/repo", "checkout", "--", "."], check=True)
    m["verified_by_applying_to_repo"] = {"check_exit": res, "how": "git -C /repo apply patch.diff; ./check <id> --tier quick (VERIF_SEED=1); git -C /repo checkout -- .",
                                         "repo_head": subprocess.run(["git", "-C", "/repo", "rev-parse", "--short", "HEAD"], capture_output=True).stdout.decode().strip()}
    json.dump(m, open(meta_p, "w"), indent=1)
    print(sid, res, flush=True)
subprocess.run(["git", "-C", "/verif", "checkout", "--", "evidence"])  # evidence written against a seeded tree is not evidence
