#!/bin/sh
# move a scratch worktree (with an uncommitted seeded change) onto /repo's current HEAD, without git stash
set -e
wt="$1"; head=$(git -C /repo rev-parse HEAD)
git -C "$wt" diff -- cdd > "$wt/.seed.patch"
git -C "$wt" checkout -q -- cdd
git -C "$wt" checkout -q --detach "$head"
git -C "$wt" apply "$wt/.seed.patch"
rm -f "$wt/.seed.patch"
echo "$wt -> $(git -C "$wt" rev-parse --short HEAD): $(git -C "$wt" status --short | tr '\n' ' ')"
