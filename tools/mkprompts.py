"""write per-property prompts for a further round of seeded changes: /tmp/wt/prompts<R>/Cxx.txt (agents see only that text)"""
import glob, json, os, re, sys

rnd, suffix = sys.argv[1], sys.argv[2]  # e.g. 4 d
THEME5 = ("Aim for a regression that only shows through a COMPOSITION or at SCALE, inside the property's domain: two operations in "
          "sequence (parse then emit then parse again, the same command run twice, one conversion after a different one in the same "
          "process), two features present in the same input (a default AND a long wrapped description, a footer AND a return section, "
          "a decorator AND a multi-line header, a primary key AND a foreign key, a blacklist AND recursion), several entries where the "
          "existing tests use one (3+ classes in a file, 3+ models in a document, 10+ parameters, 5+ paragraphs, deeply nested definitions), "
          "an entry that comes LAST or FIRST among several, or two entries that resemble each other (same prefix in their names, same "
          "description, same type). Prefer anchored files the earlier participants did not touch. The previous round asked for the following, "
          "which is still welcome: ")
THEME6 = ("This time break a SECONDARY CLAUSE of the property rather than its headline: read the statement sentence by sentence and pick "
          "a guarantee that is easy to forget - what stays UNCHANGED (comments, other definitions, other defaults, the input file, the "
          "source package, an existing output file), what must hold when something FAILS or is refused (file left byte-identical, "
          "nothing written, nothing executed), what must hold EXACTLY (exactly one primary key, exactly the requested operations, required "
          "exactly when not Optional, exactly those names in __all__), what must hold for EVERY member (every $ref, every generated file, "
          "every parameter of the signature, every module), or the ORDER of things. The regression should leave the headline behaviour "
          "intact. Prefer anchored files the earlier participants did not touch. Earlier rounds asked for the following, still welcome: ")
THEME7 = ("This round is FREE-STYLE with one constraint: put the regression where nobody has looked yet. UNTOUCHED below lists the "
          "anchored files no earlier participant changed - use one of them if the property's behaviour can be broken there at all "
          "(say so if it cannot, and then use any file the behaviour flows through, but a function none of the earlier changes is in). "
          "Think like a maintainer under time pressure: a quick fix for an unrelated issue, a micro-optimisation, a lint-driven "
          "rewrite (comprehension to generator, `== None` to `is None`, `dict()` to literal, f-string conversion, early return), a "
          "py2->py3 idiom, an off-by-one when switching between enumerate/range/slices, a default argument that is mutable, an "
          "exception handler that is too broad. Earlier rounds asked for the following, all still welcome: ")
THEME8 = ("This round targets the CORNERS of the quantified domain and the less-travelled ROUTES: pick the corner that a checker which "
          "samples inputs at random visits least, yet which the statement clearly covers - the extremes of the quantifier (smallest and "
          "largest sizes, zero or one entries, the LAST configuration or style in a list, a combination of TWO non-default options, the "
          "third consecutive application), the command-line route versus the Python API route for the same operation (argument plumbing "
          "in cdd/__main__.py, defaults of keyword arguments that the CLI passes but the API does not, or the reverse), inputs that are "
          "legal but unusual (an empty or one-line docstring, single-character names, a parameter named like a builtin or like an "
          "option of the tool itself, tabs for indentation, Windows line ends, a file without trailing newline, non-ASCII text, very "
          "long lines), or a regression that corrupts only a SECONDARY OBSERVABLE the statement still covers (what is left on disk when "
          "a command fails, an extra file, the order of names in __all__, blank lines and trailing newline of a rewritten file, a "
          "message instead of an error). Think like a maintainer: a quick fix for an unrelated issue, a tidy-up, a changed default. "
          "Use a file AND function none of the earlier changes is in. Earlier rounds asked for the following, all still welcome: ")
THEME9 = ("This round is about SILENT DEGRADATION. The regression must NOT raise, crash, hang or produce invalid output: everything the "
          "tool writes stays valid, plausible and well-formed - but is subtly wrong for a minority of inputs: a dropped or duplicated "
          "entry, two neighbours swapped, an off-by-one index or slice, a description truncated or merged with the next one, a default "
          "attached to the neighbouring parameter, a type widened or narrowed, a member of a list lost, a line written twice, the wrong "
          "one of two similar things picked. Prefer POSITIONAL slips (the first or the last element, adjacent pairs, even versus odd "
          "counts, the entry after an entry without default, the second of two similar names, the element after an empty one) and "
          "slips in how two sources of the same fact are MERGED (docstring versus signature, annotation versus default, existing "
          "target versus truth). Think like a maintainer: a tidy-up, a comprehension rewritten, zip versus zip_longest, enumerate "
          "start, a sort added or removed, `or` versus `if ... is None`, dict.update order, a slice bound. Use a file AND function none "
          "of the earlier changes is in. Earlier rounds asked for the following, all still welcome: ")
THEME10 = ("This round wants regressions that live in the SEAMS: (a) TWO COOPERATING SITES that each look fine alone - a helper whose "
           "contract changes slightly (returns a view instead of a copy, a list instead of a tuple, None instead of '', a stripped string) "
           "and one distant caller that relied on the old contract while all others do not care; (b) STATE THAT SURVIVES between calls - a "
           "module-level cache or memo keyed by too little, a mutable default argument, a registry that is appended to, an object that "
           "is reused instead of rebuilt - so that the FIRST call is right and a LATER call (another input, the same command again, the "
           "second file of a directory, the second class of a module) is wrong; (c) the FAULT PATH - what is left behind when something "
           "fails at a particular point: a file opened for writing before the work that may raise, an except clause that now swallows "
           "or converts an error and lets the command carry on with half a result, a cleanup that no longer runs; (d) the ENVIRONMENT - "
           "behaviour that changes with an environment variable the tool reads (e.g. DOCTRANS_LINE_LENGTH), the current directory, a "
           "relative versus absolute path, a trailing newline or CRLF or BOM in the file, the order in which a directory is listed. "
           "The regression must stay invisible in a single ordinary call on ordinary input. Use a file AND function none of the earlier "
           "changes is in. Earlier rounds asked for the following, all still welcome: ")
THEME11 = ("This round is MUTATION-STYLE: the regression is ONE TOKEN - an operator (< / <=, == / !=, and / or, + / -, in / not in), a "
           "constant (0 / 1 / -1, an index, a slice bound, True / False, a string literal such as a separator or a prefix), a swapped "
           "pair of arguments, a keyword argument's name or value, a method (strip / rstrip / lstrip, startswith / endswith, "
           "append / extend, any / all, min / max, sorted / reversed), or one deleted `not`. Survey the anchored code for lines the "
           "test-suite EXECUTES but whose result it never pins for some class of inputs; pick the mutant that (1) survives the "
           "suite, (2) breaks the property for inputs inside its domain, and (3) is as QUIET as possible - affects the fewest inputs, "
           "produces plausible output, raises nothing. Try several candidates before settling (run the suite on each) and say "
           "which ones were killed by the tests. Use a file AND function none of the earlier changes is in if you can. Earlier "
           "rounds asked for the following, all still welcome: ")
theme = THEME11 if rnd == "11" else THEME10 if rnd == "10" else THEME9 if rnd == "9" else THEME8 if rnd == "8" else THEME5 if rnd == "5" else (THEME6 if rnd == "6" else (THEME7 if rnd == "7" else ""))
out = "/tmp/wt/prompts%s" % rnd
os.makedirs(out, exist_ok=True)
tpl = open(os.path.join(os.path.dirname(os.path.abspath(__file__)), "prompt_template.txt")).read()
props = {json.loads(l)["id"]: json.loads(l) for l in open("/verif/properties.jsonl")}
head_end = tpl.index("PROPERTY C01")
task_start = tpl.index("TASK\n")
for pid, p in props.items():
    wt = "/tmp/wt/%s%s" % (pid, suffix)
    prev = []
    for d in sorted(glob.glob("/verif/seeded/%s-*/patch.diff" % pid)):
        txt = open(d).read()
        files = re.findall(r"^\+\+\+ b/(\S+)", txt, re.M)
        lines = [l for l in txt.splitlines() if (l.startswith("+") or l.startswith("-")) and not l.startswith(("+++", "---"))][:6]
        prev.append("file %s; changed lines: %s" % (", ".join(files), " / ".join(l[:160] for l in lines)))
    body = "PROPERTY %s — %s\nStatement: %s\nQuantified over: %s\nCode it is anchored in: %s\n\n" % (
        pid, p["title"], p["statement"], p["quantifier"]["text"], ", ".join(p["anchors"]["files"]))
    body += ("%d previous participants already produced these regressions for this property: %s. Produce a DIFFERENT one: a different FILE "
             "than all of them if at all possible (shared helpers such as cdd/shared/pure_utils.py, cdd/shared/ast_utils.py, "
             "cdd/shared/source_transformer.py, cdd/shared/emit/*, per-format utils modules and the argument plumbing in cdd/__main__.py are "
             "all fair game when the property's behaviour flows through them), a different kind of slip and a different triggering condition. "
             "Aim for a regression whose effect depends on the SHAPE OF THE DATA rather than on a flag: e.g. only with three or more parameters, "
             "only for the last/first/middle parameter, only for names with underscores/digits/leading underscores/unicode or names that are "
             "also Python keywords-with-underscore, only for nested types (Optional[List[int]], Union of three, Literal with one member, "
             "Literal with quotes or spaces inside a member), only for negative or very small floats, strings containing quotes, backslashes, "
             "percent/brace characters or a '#', multi-paragraph or very long descriptions, descriptions that end in ':' or contain a colon, "
             "two entries with the same description, an interface with exactly one parameter, a class with a nested class or two methods of the "
             "same name in different classes, files without trailing newline or with CRLF line ends, and so on. Effects that appear only on a "
             "second application, after another conversion ran in the same process, or only in one of several output files are welcome too. "
             "IMPORTANT: the triggering input must lie INSIDE the domain the property is quantified over (as written above) - a regression "
             "that only shows on inputs the property does not talk about does not count.\n\n"
             % (len(prev), "; ".join("(%d) %s" % (i + 1, x) for i, x in enumerate(prev))))
    if rnd == "7":
        touched = set()
        for d in glob.glob("/verif/seeded/%s-*/patch.diff" % pid):
            touched.update(re.findall(r"^\+\+\+ b/(\S+)", open(d).read(), re.M))
        untouched = [f for f in p["anchors"]["files"] if f not in touched]
        body = body.replace("Produce a DIFFERENT one:", "UNTOUCHED anchored files: %s. Produce a DIFFERENT one:" % (", ".join(untouched) or "(none left)"))
    body = body.replace("Aim for a regression whose effect depends on the SHAPE OF THE DATA", theme + "Aim for a regression whose effect depends on the SHAPE OF THE DATA")
    text = tpl[:head_end].replace("/tmp/wt/C01c", wt) + body + tpl[task_start:].replace("/tmp/wt/C01c", wt).replace("demo_C01", "demo_%s" % pid)
    open(os.path.join(out, pid + ".txt"), "w").write(text)
print(open(os.path.join(out, "C05.txt")).read()[:6000])
