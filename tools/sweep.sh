#!/bin/sh
# sweep every check's quick tier over several seeds on the unchanged tree; print anything that is not a clean exit 0
cd /verif
for s in ${SEEDS:-0 1 2 3}; do
  for i in 01 02 03 04 05 06 07 08 09 10 11 12 13 14 15 16 17 18 19 20; do
    out=$(VERIF_SEED=$s ./check C$i --tier ${TIER:-quick} 2>&1); rc=$?
    line=$(echo "$out" | grep "^C$i tier" | cut -c1-60)
    t=$(echo "$out" | grep "^C$i tier" | grep -o "[0-9.]*s$")
    if [ $rc -ne 0 ] || echo "$out" | grep -q "^VIOLATION\|INCONCLUSIVE"; then echo "!! C$i seed=$s rc=$rc"; echo "$out" | grep -v KNOWN | tail -5 | cut -c1-300; else echo "ok C$i seed=$s $t"; fi
  done
done
