#!/usr/bin/env python3
"""tools/eval_seed.py <worktree> <seed-id> <property> [--checks C01,C02,...] [--thorough C01,...]
Confirms an independently written breaking change (demo fails with it / passes without, test-suite unchanged),
runs the checks against the worktree (VCDD_REPO) and stores /verif/seeded/<seed-id>/{patch.diff,demo,meta.json}."""
import json, os, subprocess, sys, shutil, glob, argparse, time
ap = argparse.ArgumentParser()
ap.add_argument("wt"); ap.add_argument("seed_id"); ap.add_argument("prop")
ap.add_argument("--checks", default="")
ap.add_argument("--thorough", default="")
ap.add_argument("--needs", default="")
ap.add_argument("--skip-tests", action="store_true")
ap.add_argument("--note", default="")
a = ap.parse_args()
wt = a.wt
ALL = ["C%02d" % i for i in range(1, 21)]
def sh(cmd, cwd=None, env=None, timeout=3600):
    e = dict(os.environ); e.update(env or {})
    return subprocess.run(cmd, shell=True, cwd=cwd, env=e, stdout=subprocess.PIPE, stderr=subprocess.STDOUT, timeout=timeout)
patch = sh("git diff -- cdd", cwd=wt).stdout.decode()
assert patch.strip(), "no source diff in worktree"
demos = glob.glob(os.path.join(wt, "demo_*.py"))
assert demos, "no demo"
demo = demos[0]
env = {"PYTHONPATH": wt}
r_with = sh("/venv/bin/python %s" % demo, cwd=wt, env=env)
# NB: `git stash` is shared between worktrees of one repository (refs/stash is per repo): never use it here
ppath = os.path.join("/tmp", "eval_seed_%d.diff" % os.getpid())
open(ppath, "w").write(patch)
sh("git checkout -- cdd", cwd=wt)
try:
    r_without = sh("/venv/bin/python %s" % demo, cwd=wt, env=env)
finally:
    ra = sh("git apply %s" % ppath, cwd=wt)
    assert ra.returncode == 0, ra.stdout
    os.remove(ppath)
assert sh("git diff -- cdd", cwd=wt).stdout.decode() == patch, "worktree diff changed during evaluation"
print("demo with change: exit", r_with.returncode, "| without:", r_without.returncode)
tests = None
if not a.skip_tests:
    t = sh("/venv/bin/python -m pytest -q -p no:cacheprovider --deselect cdd/tests/test_compound/test_exmod.py 2>&1 | tail -8", cwd=wt, env=env)
    tests = t.stdout.decode()
    print(tests.strip().splitlines()[-1])
results = {}
checks = a.checks.split(",") if a.checks else ALL
for c in checks:
    t0 = time.time()
    r = sh("./check %s --tier quick" % c, cwd="/verif", env={"VCDD_REPO": wt})
    out = r.stdout.decode()
    viol = [l for l in out.splitlines() if l.startswith("  deviation")]
    results[c] = {"tier": "quick", "exit": r.returncode, "violating_keys": len(viol), "first": viol[0][:300] if viol else None,
                  "wall_s": round(time.time() - t0, 1)}
    print(c, "quick exit", r.returncode, len(viol), (viol[0][:160] if viol else ""))
for c in (a.thorough.split(",") if a.thorough else []):
    r = sh("./check %s --tier thorough" % c, cwd="/verif", env={"VCDD_REPO": wt})
    out = r.stdout.decode()
    viol = [l for l in out.splitlines() if l.startswith("  deviation")]
    results[c + ":thorough"] = {"tier": "thorough", "exit": r.returncode, "violating_keys": len(viol), "first": viol[0][:300] if viol else None}
    print(c, "thorough exit", r.returncode, len(viol), (viol[0][:160] if viol else ""))
# restore evidence of the unchanged tree is the caller's business (evidence is rewritten by every run)
d = os.path.join("/verif/seeded", a.seed_id)
os.makedirs(d, exist_ok=True)
open(os.path.join(d, "patch.diff"), "w").write(patch)
shutil.copy(demo, os.path.join(d, os.path.basename(demo)))
meta = {"seed_id": a.seed_id, "breaks_property": a.prop, "needs_to_manifest": a.needs, "note": a.note,
        "base_commit": sh("git rev-parse HEAD", cwd=wt).stdout.decode().strip(),
        "confirmed": {"demo_exit_with_change": r_with.returncode, "demo_exit_without_change": r_without.returncode,
                      "demo_output_with_change_tail": r_with.stdout.decode()[-600:],
                      "test_suite_tail": tests.strip().splitlines()[-1] if tests else None},
        "ran": "checks with VCDD_REPO=<scratch worktree holding the change> (equivalent to git -C /repo apply; /repo untouched)",
        "caught_by": sorted(k for k, v in results.items() if v["exit"] == 1),
        "results": results}
json.dump(meta, open(os.path.join(d, "meta.json"), "w"), indent=1)
print("caught by:", meta["caught_by"])
