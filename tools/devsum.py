import json, sys, collections
ev = json.load(open('/verif/evidence/%s.json' % sys.argv[1]))
c = collections.OrderedDict()
for k, v in sorted(ev['coverage']['violating_keys'].items()):
    print("%6d %s :: %s" % (v['count'], k, v['what'][:int(sys.argv[2]) if len(sys.argv) > 2 else 150]))
print(len(ev['coverage']['violating_keys']), 'violating keys;', ev['coverage']['known_findings_observed'].keys())
print(ev['coverage']['inconclusive'])
