#!/usr/bin/env python3
"""Regenerates /verif/seeded/README.md from seeded/*/meta.json"""
import json, glob, os
rows = []
for f in sorted(glob.glob('/verif/seeded/*/meta.json')):
    m = json.load(open(f))
    rows.append(m)
out = ["# Seeded changes (written independently by sub-agents that saw only the property text)", "",
       "Each directory holds `patch.diff` (against the recorded base commit of /repo), the agent's demonstration program",
       "(exits 0 on the unchanged code, non-zero with the change) and `meta.json` (what it breaks, what it needs in order",
       "to manifest, what was run, which checks reported a VIOLATION). Every change was confirmed before it was kept: the demo",
       "fails with it and passes without it, and the repository's test-suite keeps its stable-pass set.", "",
       "| seed | property | caught by (quick unless noted) | needs, in order to manifest | note |", "|---|---|---|---|---|"]
for m in rows:
    out.append("| %s | %s | %s | %s | %s |" % (m["seed_id"], m["breaks_property"], ", ".join(m["caught_by"]) or "**none**",
                                          m["needs_to_manifest"].replace("|", "/"), (m.get("note") or "").replace("|", "/")))
open('/verif/seeded/README.md', 'w').write("\n".join(out) + "\n")
print(len(rows), "seeds;", sum(1 for m in rows if not m["caught_by"]), "uncaught")
