import json, sys, collections, re
ev = json.load(open('/verif/evidence/%s.json' % sys.argv[1]))
g = collections.OrderedDict()
for k, v in sorted(ev['coverage']['violating_keys'].items()):
    head, _, detail = k.partition('|')
    e = g.setdefault(head, {'count': 0, 'details': collections.Counter(), 'what': v['what']})
    e['count'] += v['count']
    for kv in detail.split(','):
        e['details'][kv] += v['count']
for h, e in g.items():
    det = collections.defaultdict(list)
    for kv, c in e['details'].items():
        a, _, b = kv.partition('=')
        det[a].append(b)
    print("%6d %s  {%s}\n         e.g. %s" % (e['count'], h, '; '.join('%s=%s' % (a, '/'.join(sorted(b))) for a, b in det.items()), e['what'][:int(sys.argv[2]) if len(sys.argv) > 2 else 170]))
print(len(g), 'generic keys;', list(ev['coverage']['known_findings_observed'].keys()), ev['coverage']['inconclusive'])
