#!/usr/bin/env python3
"""tools/addfinding.py KEY PROPS(comma) WHAT WITNESS  — add/extend an open finding (dev-time only; never run by checks)"""
import json, sys
p = '/verif/known_findings.json'
d = json.load(open(p))
key, props, what, witness = sys.argv[1], sys.argv[2].split(','), sys.argv[3], sys.argv[4]
for e in d['findings']:
    if e['key'] == key:
        e['properties'] = sorted(set(e['properties']) | set(props))
        if what != '-': e['what'] = what
        if witness != '-': e['witness'] = witness
        break
else:
    d['findings'].append({'key': key, 'properties': sorted(props), 'status': 'open', 'what': what, 'witness': witness})
json.dump(d, open(p, 'w'), indent=1, ensure_ascii=False)
print(len(d['findings']), 'findings')
