#!/bin/bash
# Offline setup: third-party helpers for the monitors go beside the repository's interpreter
# (never into /venv): /verif/.deps, git-ignored, re-created here or lazily by ./check.
set -e
cd "$(dirname "$0")"
if [ ! -f .deps/.ok ]; then
  rm -rf .deps
  PIP_NO_INDEX=1 /venv/bin/pip install -q --no-index --find-links /opt/veriftools/wheels \
     --target .deps icontract deal jsonschema >/dev/null 2>.deps.log || { cat .deps.log; exit 1; }
  rm -f .deps.log
  touch .deps/.ok
fi
PYTHONPATH=/repo:$PWD/.deps:$PWD /venv/bin/python -c "import icontract, jsonschema, cdd, vcdd; print('setup ok: cdd from', cdd.__file__)"
