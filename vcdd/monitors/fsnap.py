"""M3 — file-system snapshot monitor: recursive (type, size, mode, sha1, link target) snapshot of a
scratch root before/after a command; diff -> created / modified / deleted paths."""

import hashlib
import os
import stat


def snapshot(root, skip=("__pycache__",)):
    snap = {}
    for d, dirs, files in os.walk(root, followlinks=False):
        dirs[:] = sorted(x for x in dirs if x not in skip)
        rel_d = os.path.relpath(d, root)
        st = os.lstat(d)
        snap[rel_d + "/"] = ("dir", 0, stat.S_IMODE(st.st_mode), None, None)
        for x in list(dirs):
            p = os.path.join(d, x)
            if os.path.islink(p):
                snap[os.path.relpath(p, root)] = ("link", 0, 0, None, os.readlink(p))
        for f in sorted(files):
            p = os.path.join(d, f)
            st = os.lstat(p)
            if stat.S_ISLNK(st.st_mode):
                snap[os.path.relpath(p, root)] = ("link", 0, 0, None, os.readlink(p))
            elif stat.S_ISREG(st.st_mode):
                with open(p, "rb") as fh:
                    h = hashlib.sha1(fh.read()).hexdigest()
                snap[os.path.relpath(p, root)] = ("file", st.st_size, stat.S_IMODE(st.st_mode), h, None)
            else:
                snap[os.path.relpath(p, root)] = ("other", st.st_size, stat.S_IMODE(st.st_mode), None, None)
    return snap


def diff(before, after):
    created = sorted(k for k in after if k not in before)
    deleted = sorted(k for k in before if k not in after)
    modified = sorted(k for k in after if k in before and after[k] != before[k])
    return {"created": created, "deleted": deleted, "modified": modified}


def changed_paths(d):
    return d["created"] + d["deleted"] + d["modified"]
