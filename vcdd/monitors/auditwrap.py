"""M2 wrapper for CLI runs: `python auditwrap.py <logfile> <module> [args...]` installs an audit hook
that appends file-system mutating / process / network events as JSON lines to <logfile>, then runs
`python -m <module> args...` in this process."""

import json
import os
import runpy
import sys

LOG = sys.argv[1]
FD = os.open(LOG, os.O_WRONLY | os.O_CREAT | os.O_APPEND, 0o600)
WATCH = ("os.mkdir", "os.remove", "os.rename", "os.rmdir", "os.chmod", "os.link", "os.symlink", "os.truncate", "shutil.",
         "subprocess.Popen", "os.system", "os.exec", "os.posix_spawn", "os.fork", "socket.", "tempfile.mkstemp",
         "tempfile.mkdtemp", "os.utime")


def hook(event, args):
    try:
        if event == "open":
            path, mode = args[0], args[1]
            if isinstance(mode, str) and any(c in mode for c in "wax+") and path != FD and isinstance(path, (str, bytes)):
                os.write(FD, (json.dumps({"event": "open-for-write", "path": os.fsdecode(path), "mode": mode}) + "\n").encode())
        elif event.startswith(WATCH):
            os.write(FD, (json.dumps({"event": event, "args": [repr(a)[:200] for a in args[:2]]}) + "\n").encode())
    except Exception:
        pass


sys.addaudithook(hook)
sys.argv = [sys.argv[2]] + sys.argv[3:]
runpy.run_module(sys.argv[0], run_name="__main__", alter_sys=True)
