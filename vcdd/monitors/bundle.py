"""M5 — configuration-differential monitor: the worker side.

`python -m vcdd.monitors.bundle <seed> <first> <count> <history>` runs a fixed, generated bundle of
invocations of the real parsers / emitters / commands in *this* process (whose PYTHONHASHSEED and
call history the parent chose) and prints one JSON object {case id: sha256 of the output}.
The parent compares digests of the same case across configurations.
"""

import ast
import hashlib
import json
import os
import random
import shutil
import sys
import tempfile
from copy import deepcopy

from vcdd.core import jdump
from vcdd.gen import irgen, progen
from vcdd.oracle import hops
from vcdd.oracle.ircmp import canon

KINDS = ("function_parse_partial", "emit_class", "emit_function", "emit_argparse", "emit_sqlalchemy", "emit_docstring",
         "json_schema", "infer_imports", "merge_assignment_lists", "gen_file", "gen_file_imports", "doctrans",
         "openapi", "class_parse", "sync_properties", "optimise_imports", "emit_sqlalchemy_custom", "docstring_parse",
         "function_parse_footer", "gen_phase1", "json_schema_set_default", "gen_file_infer", "gen_dir", "gen_imports_from_file", "shared_ir", "emit_after_parse", "gen_routes_upsert")

# a small shared pool of type names the converters have no table entry for: a later case meets names an earlier
# (or an interleaved, unrelated) conversion has already seen - what a module-level table that learns would change
CUSTOM_TYPES = ("Person", "Thing", "np.ndarray", "tf.data.Dataset", "collections.OrderedDict")


def custom_ir(r, name=None, plain_only=False):
    """interface whose columns mix scalars with custom type names: plain, Optional, Union (either side), List"""
    from collections import OrderedDict

    shapes = ("%s",) if plain_only else ("%s", "Optional[%s]", "Union[int, %s]", "Union[%s, str]", "Union[float, %s]",
                                         "List[%s]", "int", "str")
    pool = CUSTOM_TYPES if plain_only else r.sample(CUSTOM_TYPES, r.randint(1, 2))  # names recur within one interface
    names = r.sample(irgen.NAMES, len(pool) if plain_only else r.randint(2, 6))
    params = OrderedDict()
    for i, nm in enumerate(names):
        sh = r.choice(shapes)
        p = {"typ": sh % (pool[i] if plain_only else r.choice(pool)) if "%s" in sh else sh,
             "doc": irgen.rand_doc(r, stop=False)}
        if sh.startswith("Union[int") and r.random() < 0.5:
            p["default"] = r.choice((0, 5))
        params[nm] = p
    return {"name": name or r.choice(("Visit", "Pet", "Owner")), "doc": irgen.rand_doc(r), "params": params,
            "returns": None}


def digest(x):
    if not isinstance(x, (bytes, str)):
        x = jdump(x, sort_keys=False)  # key order matters: it is part of the output
    if isinstance(x, str):
        x = x.encode()
    return hashlib.sha256(x).hexdigest()[:20]


def partial_function(r):
    """a function whose docstring documents a subset / a permutation of the signature (the rest must
    be merged in from the signature: the order of that merge is what a set iteration would scramble)"""
    n = r.randint(4, 8)
    names = r.sample(irgen.NAMES, n)
    sig = []
    for nm in names:
        typ = r.choice(("int", "str", "float", "bool", "Optional[int]"))
        sig.append("%s: %s = %s" % (nm, typ, {"int": "5", "str": "'s'", "float": "2.5", "bool": "True",
                                             "Optional[int]": "None"}[typ]) if r.random() < 0.7 else nm + "=None")
    documented = r.sample(names, r.randint(0, max(0, n - 3)))
    style = r.choice(("rest", "google", "numpydoc"))
    from vcdd.gen import docgen

    sec = docgen.param_section(r, style, [(nm, None, irgen.rand_doc(r, stop=False), Ellipsis) for nm in documented],
                               None, types=False)
    doc = "\n    Summary of the thing\n\n%s\n    " % docgen.indent_text(sec, 1)
    return 'def foo(%s):\n    """%s"""\n    return None\n' % (", ".join(sig), doc)


def class_module(r, n=None, names=None):
    names = names or r.sample(["Alpha", "Beta", "Gamma", "Delta", "Conf"], n or r.randint(1, 4))
    out = ["from typing import Optional, Literal, List, Union\n"]
    for nm in names:
        ir = irgen.rand_ir(r, nparams=r.randint(1, 5), type_kinds=("int", "float", "str", "bool", "optional", "literal", "list"),
                           default_kinds=("absent", "int", "float", "str", "bool"), with_return=False, name=nm)
        out.append(hops.emit(ir, "class")[1])
    return "\n\n".join(out) + "\n"


HISTORY = ["order"]
SHARED_FIRST = ("function", "class", "argparse", "docstring", "json_schema")
SHARED_THEN = ("class_call", "argparse", "function", "docstring", "json_schema", "class")


def _shared_emit(ir, fmt):
    """one description object handed to an emitter as it is (no copy): what code that emits several targets does"""
    if fmt == "class_call":
        return hops.emit(ir, "class", emit_call=True, _share=True)[1]
    if fmt == "function":
        return hops.emit(ir, "function", function_type=ir.get("type") or "static", _share=True)[1]
    return hops.emit(ir, fmt, _share=True)[1]


def shared_ir_case(r):
    """a parsed function whose body does some work and ends in `return <value>` (or does not), emitted as E2 - in the
    histories `twice` and `interleaved` the same description object went through another emitter E1 just before"""
    import cdd.function.parse

    n = r.randint(1, 4)
    names = r.sample(irgen.NAMES, n)
    sig = ", ".join("%s: %s = %s" % (nm, t, d) for nm, (t, d) in zip(names, (r.choice((("int", "3"), ("float", "-0.5"),
                    ("str", "'x'"), ("bool", "False"))) for _ in names)))
    ret = r.choice(("    return %s\n" % names[0], "    return 'done'\n", "    return (%s, 1)\n" % names[-1], "", "    return None\n"))
    body = "    total = %s\n    print(total, %s)\n" % (names[0], names[-1]) if r.random() < 0.7 else ""
    doc = "\n    ".join(["%s" % irgen.rand_doc(r), ""] + [":param %s: %s" % (nm, irgen.rand_doc(r, stop=False)) for nm in names]
                        + ([":return: %s" % irgen.rand_doc(r, stop=False)] if ret and r.random() < 0.7 else []))
    src = 'def run(%s):\n    """\n    %s\n    """\n%s%s' % (sig, doc, body, ret or ("" if body else "    pass\n"))
    out = []
    for first in SHARED_FIRST:  # every ordered pair of emitters, each on a freshly parsed description
        for then in SHARED_THEN:
            ir = cdd.function.parse.function(ast.parse(src).body[0])
            ir["name"] = ir.get("name") or "run"
            if HISTORY[0] in ("twice", "interleaved"):
                try:
                    _shared_emit(ir, first)
                except Exception:
                    pass
            try:
                out.append("%s after %s\n%s" % (then, first, _shared_emit(ir, then)))
            except Exception as e:
                out.append("%s after %s raised %s" % (then, first, type(e).__name__))
    return "\n".join(out)


FOREIGN = (("argparse", {"typ": "dict"}), ("argparse", {"typ": "list"}), ("argparse", {"typ": "Optional[dict]"}),
           ("class", {"typ": "dict", "default": "```{}```"}), ("function", {"typ": "Optional[List[str]]"}),
           ("sqlalchemy", {"typ": "dict"}), ("argparse", {"typ": "Person"}), ("class", {"typ": "Callable or None"}), ("docstring", {"typ": "Callable or None"}),
           ("docstring", {"typ": "object or None"}), ("function", {"typ": "bytes or str"}), ("docstring", {"typ": "dict or None"}),
           ("class", {"typ": "Person or None"}), ("docstring", {"typ": "type or None"}), ("docstring", {"typ": "name or None"}))


VICTIMS = (("Callable", "Callable[[Exception], None]"), ("object", "Optional[Person]"), ("bytes", "Union[bytes, str]"),
           ("Person", "Optional[Person]"), ("dict", "Dict[str, int]"), ("name", "str"), ("type", "Type[Person]"))


def emit_after_parse_case(r):
    """an interface with container / custom / Optional types emitted through class, function and argparse - in the histories
    `twice` and `interleaved` after the *parse* of an unrelated source that cdd itself emitted (an argparse function with a
    required option of non-simple type, ...): what a parser learns (a module-level table written to) must not change what
    an emitter writes afterwards"""
    from collections import OrderedDict

    names = r.sample(irgen.NAMES, 3)
    types = r.sample(("dict", "Optional[dict]", "list", "Optional[list]", "Optional[List[str]]", "Person", "Callable", "int", "str"), 5)
    names = r.sample(irgen.NAMES, 5)
    params = OrderedDict()
    for nm, t in zip(names, types):
        params[nm] = {"typ": t, "doc": irgen.rand_doc(r, stop=False)}
        if t in ("int", "str"):
            params[nm]["default"] = {"int": 3, "str": "x"}[t]
        elif t.startswith("Optional["):
            params[nm]["default"] = irgen.NONE_STR
    ir = {"name": "Target", "type": "static", "doc": irgen.rand_doc(r), "params": params, "returns": None}
    if HISTORY[0] in ("twice", "interleaved"):
        for fmt_f, entry in FOREIGN:  # every foreign source is emitted by cdd and parsed back before the target is emitted
            foreign = {"name": "Foreign", "type": "static", "doc": "Foreign things.", "returns": None,
                       "params": OrderedDict((("payload", dict({"doc": entry["typ"] + ". Something to carry"}, **{
                           k: v for k, v in entry.items() if k != "typ" or " " not in v})),))}
            try:
                hops.hop(foreign, fmt_f)
            except Exception:
                pass
    out = []
    for fmt in ("class", "function", "argparse"):
        try:
            out.append(hops.emit(ir, fmt)[1])
        except Exception as e:
            out.append("%s raised %s" % (fmt, type(e).__name__))
    # ... nor what a later parse reads: descriptions whose first sentence is one word that a learning table may know by now
    import cdd.docstring.parse

    for word, typ in VICTIMS:
        doc = "Summary here.\n\n:param hook: %s. Invoked with the thing that ended it\n:type hook: ```%s```\n" % (word, typ)
        try:
            out.append(jdump(canon(cdd.docstring.parse.docstring(doc))))
        except Exception as e:
            out.append("victim %s raised %s" % (word, type(e).__name__))
    return "\n# ----\n".join(out)


def run_case(kind, r, tmp):
    if kind == "shared_ir":
        return shared_ir_case(r)
    if kind == "emit_after_parse":
        return emit_after_parse_case(r)
    import cdd.shared.ast_utils as au

    if kind == "function_parse_partial":
        src = partial_function(r)
        import cdd.function.parse

        return canon(cdd.function.parse.function(ast.parse(src).body[0]))
    if kind in ("docstring_parse", "function_parse_footer"):
        # grammar docstrings with prose / sections after the parameter block (notes, examples, usage, raises), with and
        # without a return section: the parse phase edits what the scan phase produced
        from vcdd.gen import docgen
        import cdd.docstring.parse
        import cdd.function.parse

        style = r.choice(("google", "google", "numpydoc", "rest"))
        params = docgen.rand_params(r, n=r.randint(1, 4))
        text, parts = docgen.compose(r, style, indent=1 if kind == "function_parse_footer" else 0, params=params,
                                     with_footer=r.random() < 0.8, returns=Ellipsis if r.random() < 0.5 else None)
        if kind == "docstring_parse":
            return canon(cdd.docstring.parse.docstring(text))
        src = 'def foo(%s):\n    """%s"""\n    return None\n' % (", ".join(p[0] for p in params), text)
        return hops.emit(cdd.function.parse.function(ast.parse(src).body[0]), "class")[1]
    if kind == "json_schema_set_default":
        # set-valued defaults (members that differ only in letter case, or sort next to each other) through the JSON
        # encoder that renders a set as a list
        import cdd.function.parse
        import cdd.json_schema.emit
        from cdd.shared.pure_utils import SetEncoder

        pools = (("mean", "Mean", "MEAN", "sum", "Sum", "none"), ("adam", "Adam", "sgd", "SGD", "Sgd"), ("a", "B", "b", "A", "c"))
        members = r.sample(r.choice(pools), r.randint(3, 5))
        ints = r.sample(range(10), r.randint(2, 4))
        src = ("def train(reduction: set = {%s}, ranks: set = {%s}, tol: float = 0.5):\n    \"\"\"\n    Train\n\n"
               "    :param reduction: how to reduce\n\n    :param ranks: the ranks\n\n    :param tol: tolerance\n    \"\"\"\n"
               "    pass\n" % (", ".join(repr(m) for m in members), ", ".join(map(str, ints))))
        ir = cdd.function.parse.function(ast.parse(src).body[0])
        return json.dumps(cdd.json_schema.emit.json_schema(ir), cls=SetEncoder)
    if kind == "gen_phase1":
        # second phase of `gen --emit sqlalchemy`: one import per foreign table referenced by the model file
        import cdd.sqlalchemy.utils.emit_utils as sa_eu

        tables = r.sample(["Customer", "Product", "Courier", "Warehouse", "Invoice", "Supplier"], r.randint(2, 5))
        cols = ["    order_id = Column(Integer, primary_key=True, comment='the id')"] + [
            "    %s = Column(%s, ForeignKey('%s'), comment='the %s')" % (t.lower(), t, t, t.lower()) for t in tables]
        src = ("from sqlalchemy import Column, ForeignKey, Integer\n\n\nclass Order(Base):\n    \"\"\"\n    Order record\n    \"\"\"\n"
               "    __tablename__ = 'order_tbl'\n\n" + "\n".join(cols) + "\n")
        d = os.path.join(tmp, "models")
        os.makedirs(d, exist_ok=True)
        path = os.path.join(d, "model_%d.py" % r.randint(0, 10 ** 9))
        with open(path, "w") as f:
            f.write(src)
        sa_eu.update_with_imports_from_columns(path)
        with open(path) as f:
            return f.read()
    if kind == "emit_sqlalchemy_custom":
        return hops.emit(custom_ir(r), r.choice(("sqlalchemy", "sqlalchemy_table", "sqlalchemy_hybrid")))[1]
    if kind.startswith("emit_"):
        fmt = kind[5:]
        ir = irgen.rand_ir(r, nparams=r.randint(1, 6), suffix_defaults=True)
        return hops.emit(ir, fmt, docstring_format=r.choice(("rest", "google", "numpydoc")))[1]
    if kind == "json_schema":
        ir = irgen.rand_ir(r, nparams=r.randint(1, 8), max_params=8,
                           type_kinds=("int", "float", "str", "bool", "dict", "optional", "literal"))
        return json.dumps(hops.emit(ir, "json_schema")[0])
    if kind in ("infer_imports", "optimise_imports"):
        ir = irgen.rand_ir(r, nparams=r.randint(2, 7), max_params=8,
                           type_kinds=("optional", "literal", "list", "union", "int", "str"))
        node = hops.emit(ir, r.choice(("class", "function", "sqlalchemy")))[0]
        imports = au.infer_imports(node)
        if kind == "infer_imports":
            return [ast.unparse(i) for i in (imports or ())]
        mod = ast.parse("from typing import Optional, List\nfrom typing import Literal, Optional\n"
                        "from os import path, sep\nfrom os import path\n")
        nodes = [i for i in list(imports or ()) + mod.body if isinstance(i, ast.ImportFrom)]
        r.shuffle(nodes)
        return [ast.unparse(ast.fix_missing_locations(i)) for i in au.optimise_imports(nodes)]
    if kind == "merge_assignment_lists":
        names = r.sample(irgen.NAMES, r.randint(3, 8))
        a, b = names[: len(names) // 2 + 1], names[len(names) // 2 - 1:]
        r.shuffle(a)
        r.shuffle(b)
        mod = ast.parse("__all__ = %r\nx = 1\n__all__ += %r\n" % (a, b))
        au.merge_assignment_lists(mod, "__all__")
        return ast.unparse(mod)
    if kind in ("gen_file_infer", "gen_dir"):
        # `gen --parse infer` on a file, and `gen` on a directory of files (every file of it is read by the same
        # interpreter: what the first read leaves behind must not change what the next one finds)
        import cdd.compound.gen

        if kind == "gen_dir":
            inp = os.path.join(tmp, "pkg_%d" % r.randint(0, 10 ** 9))
            os.mkdir(inp)
            pools = [["Alpha", "Beta"], ["Gamma"], ["Delta", "Conf"]][: r.randint(2, 3)]
            for n, pool in enumerate(pools):
                with open(os.path.join(inp, "%s_%d.py" % (r.choice(("models", "conf", "part")), n)), "w") as f:
                    f.write(class_module(r, names=pool))
            outp = inp + "_out.py"
            parse_name = r.choice(("infer", "class"))
        else:
            inp = os.path.join(tmp, "inf_%d.py" % r.randint(0, 10 ** 9))
            with open(inp, "w") as f:
                f.write(class_module(r))
            outp, parse_name = inp.replace("inf_", "outf_"), "infer"
        emit_name = r.choice(("class", "argparse", "sqlalchemy", "sqlalchemy_table"))
        cdd.compound.gen.gen(name_tpl="{name}" if emit_name.startswith("sqlalchemy") else "{name}Gen", input_mapping=inp,
                             parse_name=parse_name, emit_name=emit_name, output_filename=outp,
                             emit_and_infer_imports=r.random() < 0.5)
        with open(outp) as f:
            return f.read()
    if kind == "gen_imports_from_file":
        # `gen --imports-from-file`: the import statements of a second file are copied to the top of the output, several
        # distinct ones (and a repeated one), in the order they have there
        import cdd.compound.gen

        inp = os.path.join(tmp, "inpi_%d.py" % r.randint(0, 10 ** 9))
        with open(inp, "w") as f:
            f.write(class_module(r))
        pool = ["import os", "import sys", "from collections import OrderedDict", "from typing import Optional",
                "from json import dumps", "import os.path", "from typing import List, Union", "import re as regex",
                "from typing import Literal"]
        stmts = r.sample(pool, r.randint(2, 6))
        if r.random() < 0.4:
            stmts.append(stmts[0])
        imp = os.path.join(tmp, "imports_%d.py" % r.randint(0, 10 ** 9))
        with open(imp, "w") as f:
            f.write("\n".join(stmts) + "\n\nX = 1\n")
        outp = inp.replace("inpi_", "outi_")
        cdd.compound.gen.gen(name_tpl="{name}Gen", input_mapping=inp, parse_name="class", emit_name=r.choice(("class", "argparse")),
                             output_filename=outp, imports_from_file=imp, prepend=None if r.random() < 0.5 else "# header\n")
        with open(outp) as f:
            return f.read()
    if kind in ("gen_file", "gen_file_imports"):
        import cdd.compound.gen

        src = class_module(r)
        inp = os.path.join(tmp, "inp_%d.py" % r.randint(0, 10 ** 9))
        outp = inp.replace("inp_", "out_")
        with open(inp, "w") as f:
            f.write(src)
        emit_name = r.choice(("function", "argparse", "class", "sqlalchemy", "json_schema")
                             if kind == "gen_file" else ("class", "sqlalchemy", "sqlalchemy_table"))
        if emit_name == "json_schema":
            outp = outp[:-3] + ".json"
        kw = {}
        if emit_name == "function":
            return "skipped"  # `gen --emit function` is a rejected configuration (missing function_type)
        cdd.compound.gen.gen(name_tpl="{name}" if emit_name.startswith("sqlalchemy") else "{name}Gen", input_mapping=inp,
                             parse_name="class", emit_name=emit_name, output_filename=outp,
                             emit_and_infer_imports=kind == "gen_file_imports", **kw)
        with open(outp) as f:
            return f.read()
    if kind == "doctrans":
        import cdd.compound.doctrans

        src = progen.gen_module(r, prelude=False, n_items=r.randint(1, 2))
        path = os.path.join(tmp, "dt_%d.py" % r.randint(0, 10 ** 9))
        with open(path, "w") as f:
            f.write(src)
        cdd.compound.doctrans.doctrans(filename=path, docstring_format=r.choice(("rest", "google", "numpydoc")),
                                       type_annotations=r.random() < 0.5, no_word_wrap=None)
        with open(path) as f:
            return f.read()
    if kind == "openapi":
        import cdd.compound.openapi.emit

        from cdd.compound.openapi.utils.emit_openapi_utils import NameModelRouteIdCrud

        names = r.sample(["Config", "Node", "Edge", "Thing"], r.randint(1, 3))
        return json.dumps(cdd.compound.openapi.emit.openapi([
            NameModelRouteIdCrud(name=nm, model=hops.emit(irgen.rand_ir(r, nparams=3, type_kinds=("int", "str", "optional"),
                                                                       name=nm), "json_schema")[0],
                                 route="/api/%s" % nm.lower(), id="%s_id" % nm.lower(),
                                 crud=r.choice(("CRD", "CR", "C", "RD", "D", "R"))) for nm in names]))
    if kind == "gen_routes_upsert":
        # routes written in two steps: a file that holds some of a model's routes, then the command asked for all of them
        # (what is missing is appended - in an order that must not be a set's)
        import cdd.__main__

        nm = r.choice(("Config", "Node", "UserProfile"))
        ir = irgen.rand_ir(r, nparams=r.randint(2, 4), type_kinds=("int", "str", "float"), default_kinds=("absent", "int", "str"),
                           suffix_defaults=False, with_return=False, name=nm)
        k0 = list(ir["params"])[0]
        ir["params"][k0] = {"doc": "[PK] " + ir["params"][k0]["doc"], "typ": "int"}
        mp, rp = os.path.join(tmp, "models.py"), os.path.join(tmp, "routes.py")
        with open(mp, "w") as f:
            f.write("from sqlalchemy import Column, Integer, String, Float\n\n\n" + hops.emit(ir, "sqlalchemy")[1] + "\n")
        first, then = r.choice((("C", "CRD"), ("C", "CRD"), ("C", "CRD"), ("R", "CRD"), ("D", "CRD"), ("C", "CR"), ("C", "CD")))
        out = []
        for crud in (first, then):
            cdd.__main__.main(["gen_routes", "--crud", crud, "--app-name", "rest_api", "--model-path", mp, "--model-name", nm,
                               "--routes-path", rp, "--route", "/api/%s" % nm.lower()])
            with open(rp) as f:
                out.append(f.read())
        return "\n# ======\n".join(out)
    if kind == "class_parse":
        import cdd.class_.parse

        src = class_module(r, 1)
        return canon(cdd.class_.parse.class_(ast.parse(src).body[1]))
    if kind == "sync_properties":
        import cdd.compound.sync_properties

        src_in = "class A(object):\n    %s: int = 5\n    %s: str = 'z'\n" % tuple(r.sample(irgen.NAMES, 2))
        a1 = src_in.split("\n")[1].split(":")[0].strip()
        src_out = "def f(x, %s: float = 2.5, z=None):\n    pass\n\nclass B(object):\n    q: bool = True\n" % a1
        pi, po = os.path.join(tmp, "spi_%d.py" % r.randint(0, 10 ** 9)), os.path.join(tmp, "spo_%d.py" % r.randint(0, 10 ** 9))
        with open(pi, "w") as f:
            f.write(src_in)
        with open(po, "w") as f:
            f.write(src_out)
        cdd.compound.sync_properties.sync_properties(input_eval=False, input_filename=pi, input_params=["A.%s" % a1],
                                                     output_filename=po, output_params=["f.%s" % a1],
                                                     output_param_wrap=None)
        with open(po) as f:
            return f.read()
    raise ValueError(kind)


def unrelated(r, tmp):
    """an unrelated conversion interleaved before a case (call-history dimension)"""
    k = r.choice(("sqlalchemy", "openapi", "docstring", "import", "sqlalchemy_custom", "sqlalchemy_custom", "wide"))
    try:
        if k == "sqlalchemy_custom":
            hops.emit(custom_ir(r, plain_only=r.random() < 0.7), r.choice(("sqlalchemy", "sqlalchemy_table")))
        elif k == "wide":
            # any conversion of the bundle's own domain, on other data
            run_case(r.choice([x for x in KINDS if x not in ("gen_file", "gen_file_imports", "doctrans",
                                                             "sync_properties", "gen_dir")]), r, tmp)
        elif k == "sqlalchemy":
            hops.hop(irgen.rand_ir(r, nparams=3, type_kinds=("int", "str")), "sqlalchemy")
        elif k == "openapi":
            import cdd.compound.openapi.emit
            cdd.compound.openapi.emit.openapi([{"name": "Zed", "route": "/z", "model": "Zed", "id": "id", "crud": "CRD"}])
        elif k == "docstring":
            hops.hop(irgen.rand_ir(r, nparams=4), "docstring", {"docstring_format": "numpydoc"})
        else:
            import cdd.compound.exmod_utils  # noqa
            import cdd.routes.parse.bottle  # noqa
    except Exception:
        pass


def main():
    seed, first, count, history = sys.argv[1], int(sys.argv[2]), int(sys.argv[3]), sys.argv[4]
    tmp_abs = tempfile.mkdtemp(prefix="vcdd-c10-")
    os.chdir(tmp_abs)
    tmp = "."  # relative paths only: a path that leaks into an output must not differ between processes
    HISTORY[0] = history
    ids = list(range(first, first + count))
    if history == "reversed":
        ids.reverse()
    out = {}
    try:
        for i in ids:
            kind = KINDS[i % len(KINDS)]
            if history == "interleaved":
                unrelated(random.Random("u|%s|%d" % (seed, i)), tmp)
            reps = 2 if history == "twice" else 1
            ds = []
            for rep in range(reps):
                shutil.rmtree("w", ignore_errors=True)  # same relative scratch dir, emptied, for every execution
                os.mkdir("w")
                try:
                    res = run_case(kind, random.Random("C10|%s|%d" % (seed, i)), "w")
                    ds.append(digest(res))
                except Exception as e:
                    ds.append("raised:%s" % type(e).__name__)
            out["%d:%s" % (i, kind)] = ds[-1]
            if reps == 2 and ds[0] != ds[1]:
                out["%d:%s" % (i, kind)] = "UNSTABLE-IN-PROCESS:%s/%s" % (ds[0], ds[1])
    finally:
        os.chdir("/")
        shutil.rmtree(tmp_abs, ignore_errors=True)
    print("BUNDLE " + json.dumps(out))


if __name__ == "__main__":
    main()
