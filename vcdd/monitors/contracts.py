"""M1 — API-boundary contracts installed from the harness on the *real* cdd functions.

`attach(module, name, post, snapshots)` decorates `module.name` with icontract
(`snapshot(...)(ensure(post, error=ContractBroken)(f))`) and rebinds every alias of the original
function that other modules captured with `from m import f` before we decorated.
Conditions are named functions (icontract's call form with a lambda turns a violation into a
SyntaxError); in this harness they *record and return True* (observe mode) so that compound
commands keep running and every nested call is seen; each evaluation is counted, and a counter
of zero makes the run inconclusive.
"""

import functools
import sys

try:
    import icontract
except Exception:  # pragma: no cover - fallback: plain wrapper, same observations
    icontract = None


class ContractBroken(Exception):
    """Raised by a contract in enforce mode (not used by the registered checks)."""


INSTALLED = {}  # (module name, attr) -> (original, wrapped)


def rebind_aliases(original, wrapped):
    n = 0
    for mod in list(sys.modules.values()):
        d = getattr(mod, "__dict__", None)
        if not d:
            continue
        for k, v in list(d.items()):
            if v is original:
                try:
                    setattr(mod, k, wrapped)
                    n += 1
                except Exception:
                    pass
    return n


def attach(module, name, post, snapshots=()):
    """`post` takes a subset of the function's parameter names plus `result` and `OLD`;
    `snapshots` = [(name, fn-of-parameters)], captured before the call."""
    key = (module.__name__, name)
    if key in INSTALLED:
        return INSTALLED[key][1]
    original = getattr(module, name)
    if icontract is not None:
        wrapped = icontract.ensure(post, error=ContractBroken)(original)
        for snap_name, snap_fn in snapshots:
            wrapped = icontract.snapshot(snap_fn, name=snap_name)(wrapped)
    else:  # same semantics without the library
        import inspect

        sig = inspect.signature(original)
        post_params = set(inspect.signature(post).parameters)

        @functools.wraps(original)
        def wrapped(*a, **kw):
            bound = sig.bind(*a, **kw)
            bound.apply_defaults()

            class OLD(object):
                pass

            for snap_name, snap_fn in snapshots:
                names = inspect.signature(snap_fn).parameters
                setattr(OLD, snap_name, snap_fn(**{n: bound.arguments[n] for n in names}))
            result = original(*a, **kw)
            args = {n: bound.arguments[n] for n in post_params if n in bound.arguments}
            if "result" in post_params:
                args["result"] = result
            if "OLD" in post_params:
                args["OLD"] = OLD
            if not post(**args):
                raise ContractBroken(name)
            return result

    setattr(module, name, wrapped)
    rebind_aliases(original, wrapped)
    INSTALLED[key] = (original, wrapped)
    return wrapped


def detach_all():
    for (modname, name), (original, wrapped) in list(INSTALLED.items()):
        setattr(sys.modules[modname], name, original)
        rebind_aliases(wrapped, original)
    INSTALLED.clear()
