"""M6 — import-history monitor (runs as `python importer.py m1 [m2 ...]` in a fresh interpreter).

Imports m1 first (fresh interpreter = empty import history), recording through an audit hook the
chain of package modules the import triggered; then, for every further module m2, forks: the
child (an interpreter whose history is exactly "m1 imported") imports m2 and reports status and
the public names bound in m1 and m2. One JSON object per line on stdout.
"""

import importlib
import json
import os
import sys
import traceback

CHAIN = []


def hook(event, args):
    if event == "import" and args and isinstance(args[0], str) and args[0].startswith(PKG):
        CHAIN.append(args[0])


def public_names(modname):
    m = sys.modules.get(modname)
    if m is None:
        return None
    if hasattr(m, "__all__"):
        # the public names that are actually *bound*: an __all__ entry without a binding is not a bound public name
        return sorted(str(k) for k in m.__all__ if isinstance(k, str) and hasattr(m, k))
    return sorted(k for k in vars(m) if not k.startswith("_"))


def bound_names(modname):
    """every non-underscore name bound in the module's namespace, with what it is bound to (for functions, classes and
    modules: where the object was defined) - `__all__` says what a module *means* to export, this is what an importer of
    the module *finds*; both must be the same whatever was imported before"""
    import types

    m = sys.modules.get(modname)
    if m is None:
        return None
    out = []
    for k, v in sorted(vars(m).items()):
        if k.startswith("_"):
            continue
        if isinstance(v, types.ModuleType):
            out.append((k, "module", v.__name__))
        elif isinstance(v, (type, types.FunctionType, types.BuiltinFunctionType)):
            out.append((k, type(v).__name__, "%s.%s" % (getattr(v, "__module__", None), getattr(v, "__qualname__", None))))
        else:
            out.append((k, type(v).__name__, None))
    return out


def loaded_digests():
    """short digest of the public names of every package module loaded so far (tests excluded)"""
    import hashlib

    out = {}
    for name in sorted(sys.modules):
        if (name == PKG or name.startswith(PKG + ".")) and ".tests" not in name and sys.modules[name] is not None:
            try:
                out[name] = hashlib.sha1(json.dumps([public_names(name), bound_names(name)]).encode()).hexdigest()[:10]
            except Exception as e:  # a module whose __all__ cannot be listed
                out[name] = "error:%s" % type(e).__name__
    return out


def try_import(name):
    try:
        importlib.import_module(name)
        return "ok", None
    except BaseException as e:  # noqa
        tb = traceback.format_exc().strip().splitlines()
        return "fail", "%s: %s | %s" % (type(e).__name__, e, tb[-3].strip() if len(tb) > 2 else "")


if __name__ == "__main__":
    PKG = os.environ.get("VCDD_PKG", "cdd")
    sys.addaudithook(hook)
    m1, rest = sys.argv[1], sys.argv[2:]
    status, err = try_import(m1)
    print(json.dumps({"kind": "single", "m1": m1, "status": status, "error": err, "chain": CHAIN[:60],
                      "names_m1": public_names(m1) if status == "ok" else None}))
    sys.stdout.flush()
    for m2 in rest:
        r, w = os.pipe()
        pid = os.fork()
        if pid == 0:
            os.close(r)
            del CHAIN[:]
            st2, err2 = try_import(m2)
            out = {"kind": "pair", "m1": m1, "m2": m2, "status_m1": status, "status": st2, "error": err2,
                   "names_m1": public_names(m1) if status == "ok" else None,
                   "names_m2": public_names(m2) if st2 == "ok" else None,
                   "loaded": loaded_digests() if st2 == "ok" and status == "ok" else None}
            os.write(w, json.dumps(out).encode())
            os._exit(0)
        os.close(w)
        data = b""
        while True:
            chunk = os.read(r, 65536)
            if not chunk:
                break
            data += chunk
        os.close(r)
        os.waitpid(pid, 0)
        print(data.decode() if data else json.dumps({"kind": "pair", "m1": m1, "m2": m2, "status": "died",
                                                     "error": "child produced no output"}))
        sys.stdout.flush()
