"""M2 — audit-event monitor: the worker side (fresh subprocess; the hook is global and permanent).

`python -m vcdd.monitors.auditrun <seed> <first> <count> <scratch>`: for every case index builds
an adversarial input, runs one real cdd call with the hook *armed*, and prints one JSON line per
case with the violating events observed during the call.
"""

import ast
import dis
import json
import os
import random
import sys
import sysconfig
import traceback

ARMED = {"on": False, "events": [], "allowed_writes": (), "analysed_files": ()}
REPO_CDD = None
STDLIB = os.path.realpath(sysconfig.get_paths()["stdlib"])
SITE = [os.path.realpath(p) for p in sys.path if p.endswith("site-packages") or p.endswith(".deps")]
BAD_OPS = ("CALL", "IMPORT_NAME", "IMPORT_FROM", "IMPORT_STAR", "MAKE_FUNCTION", "STORE_", "DELETE_", "YIELD", "SETUP_",
           "BEFORE_WITH", "RAISE", "LOAD_BUILD_CLASS")
PROCESS_EVENTS = ("subprocess.Popen", "os.system", "os.exec", "os.posix_spawn", "os.fork", "os.forkpty", "os.spawn",
                  "os.startfile", "pty.spawn")
NET_EVENTS = ("socket.", "urllib.Request", "http.client.", "ftplib.", "smtplib.", "ssl.")
FS_EVENTS = ("os.mkdir", "os.remove", "os.rename", "os.rmdir", "os.chmod", "os.chown", "os.link", "os.symlink",
             "os.truncate", "shutil.", "os.utime", "tempfile.mkstemp", "tempfile.mkdtemp")
NATIVE_EVENTS = ("ctypes.",)


def trusted_file(fn):
    if not isinstance(fn, str):
        return False
    if fn.startswith("<frozen"):
        return True
    rp = os.path.realpath(fn)
    return rp.startswith(REPO_CDD) or rp.startswith(STDLIB) or any(rp.startswith(s) for s in SITE) or "/vcdd/" in rp


def bad_opcodes(code):
    out = set()
    stack = [code]
    while stack:
        c = stack.pop()
        for ins in dis.get_instructions(c):
            if ins.opname.startswith(BAD_OPS):
                out.add(ins.opname)
        stack.extend(k for k in c.co_consts if hasattr(k, "co_code"))
    return sorted(out)


def hook(event, args):
    if not ARMED["on"]:
        return
    ev = None
    try:
        if event == "exec":
            code = args[0]
            fn = getattr(code, "co_filename", "?")
            caller = sys._getframe(1)
            caller_file = caller.f_code.co_filename
            rp = os.path.realpath(caller_file)
            caller_is_library = (rp.startswith(STDLIB) or any(rp.startswith(s_) for s_ in SITE)
                                 or caller_file.startswith("<frozen"))
            # code generated and run by the standard library itself (collections.namedtuple, dataclasses,
            # importlib) is not input-driven; only exec/eval issued by the package under test is inspected
            if not trusted_file(fn) and not caller_is_library:
                ops = bad_opcodes(code)
                ARMED["exec_seen"] = ARMED.get("exec_seen", 0) + 1
                if ops:
                    ev = {"event": "exec", "filename": fn, "opcodes": ops, "names": list(code.co_names)[:8],
                          "caller": "%s:%d" % (caller_file, caller.f_lineno)}
        elif event == "import":
            name, filename = args[0], args[1]
            top = name.split(".")[0]
            if top not in ALLOWED_TOP and name not in sys.modules:
                ev = {"event": "import", "module": name, "filename": filename}
        elif event == "open":
            path, mode = args[0], args[1]
            if isinstance(mode, str) and any(c in mode for c in "wax+"):
                rp = os.path.realpath(path) if isinstance(path, (str, bytes)) else repr(path)
                if rp not in ARMED["allowed_writes"] and rp != os.devnull:
                    ev = {"event": "open-for-write", "path": str(path), "mode": mode}
        elif event.startswith(PROCESS_EVENTS):
            ev = {"event": event, "args": repr(args)[:200]}
        elif event.startswith(NET_EVENTS):
            ev = {"event": event, "args": repr(args)[:200]}
        elif event.startswith(NATIVE_EVENTS):
            ev = {"event": event, "args": repr(args)[:200]}
        elif event.startswith(FS_EVENTS):
            target = args[0] if args else None
            rp = os.path.realpath(target) if isinstance(target, (str, bytes)) else repr(target)
            if rp not in ARMED["allowed_writes"]:
                ev = {"event": event, "args": repr(args)[:200]}
    except Exception as e:  # the monitor must never disturb the monitored code
        ev = {"event": "monitor-error", "args": repr(e)}
    if ev is not None:
        ARMED["events"].append(ev)


def stdlib_names():
    names = set(getattr(sys, "stdlib_module_names", ()))
    names.update(("cdd", "vcdd", "_distutils_hack", "pkg_resources", "setuptools", "encodings"))
    for s in SITE:
        if os.path.isdir(s):
            for f in os.listdir(s):
                names.add(f.split(".")[0].split("-")[0])
    return names


ALLOWED_TOP = set()


CALLS = []
GUARDED_BUILTINS = ("exit", "quit", "breakpoint", "input", "help", "license", "copyright", "credits")


def plant_canaries():
    """callables reachable by bare name from anywhere (`builtins`): two canaries of our own, and recording stand-ins for the
    interactive builtins no analysis has a reason to call (installed only while a monitored call runs)"""
    import builtins

    def canary_call(*a, **k):
        CALLS.append("canary_call")
        return 0

    class CanaryType(object):
        def __init__(self, *a, **k):
            CALLS.append("CanaryType")

    builtins.canary_call = canary_call
    builtins.CanaryType = CanaryType


def _stand_in(name):
    def recorded(*a, **k):
        CALLS.append(name)
    recorded.__name__ = name
    return recorded


def armed_call(fn, allowed_writes=(), analysed=()):
    ARMED["events"] = []
    ARMED["exec_seen"] = 0
    ARMED["allowed_writes"] = tuple(os.path.realpath(p) for p in allowed_writes)
    import builtins

    loaded_before = set(sys.modules)
    del CALLS[:]
    saved = {n: getattr(builtins, n) for n in GUARDED_BUILTINS if hasattr(builtins, n)}
    for n in saved:
        setattr(builtins, n, _stand_in(n))
    ARMED["on"] = True
    try:
        try:
            fn()
            outcome = "returned"
        except BaseException as e:  # noqa
            outcome = "raised:" + type(e).__name__
    finally:
        ARMED["on"] = False
        for n, v in saved.items():
            setattr(builtins, n, v)
    for name in CALLS:
        ARMED["events"].append({"event": "builtin-called", "name": name})
    # importlib.import_module() raises no "import" audit event: what the call left in sys.modules is compared as well
    for name in sorted(set(sys.modules) - loaded_before):
        if name.split(".")[0] not in ALLOWED_TOP:
            ARMED["events"].append({"event": "module-loaded", "module": name,
                                    "filename": getattr(sys.modules.get(name), "__file__", None)})
    return outcome, ARMED["events"], ARMED.get("exec_seen", 0)


def main():
    global REPO_CDD, ALLOWED_TOP
    from vcdd import REPO
    from vcdd.props import c17_cases

    REPO_CDD = os.path.join(os.path.realpath(REPO), "cdd")
    seed, first, count, scratch = sys.argv[1], int(sys.argv[2]), int(sys.argv[3]), sys.argv[4]
    c17_cases.preload()
    ALLOWED_TOP = stdlib_names()
    plant_canaries()
    sys.addaudithook(hook)
    os.chdir(scratch)
    sys.path.insert(0, scratch)  # the canary module really is importable
    for i in range(first, first + count):
        r = random.Random("C17|%s|%d" % (seed, i))
        try:
            case = c17_cases.build(i, r, scratch)
        except Exception as e:
            print("CASE " + json.dumps({"idx": i, "harness_error": "%r\n%s" % (e, traceback.format_exc()[-600:])}))
            continue
        outcome, events, execs = armed_call(case["call"], case.get("allowed_writes", ()))
        sentinels = [f for f in os.listdir(scratch) if f.startswith("SENTINEL")]
        for f in sentinels:
            os.remove(os.path.join(scratch, f))
        print("CASE " + json.dumps({"idx": i, "kind": case["kind"], "outcome": outcome, "events": events[:10],
                                    "probe_execs": execs, "sentinels": sentinels, "expect_fire": case.get("expect_fire", False),
                                    "input": case.get("shown", "")[:1500]}))
        sys.stdout.flush()


if __name__ == "__main__":
    main()
