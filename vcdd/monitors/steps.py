"""M4 — step-budget monitor (sys.monitoring, tool id 4).

Counts LINE events of code objects that belong to the package under test during one monitored
call. Logical time, not wall-clock: when the budget is exceeded the callback *raises*
`BudgetExceeded` inside the running frame (a source-free failpoint), so a loop that does not make
progress is cut deterministically and the hottest lines become the witness.
A `signal.alarm` watchdog far above the budget only ever yields *inconclusive*.
"""

import os
import signal
import sys
from collections import Counter

TOOL_ID = 4
mon = sys.monitoring


class BudgetExceeded(BaseException):
    """BaseException: `except Exception` / `suppress(...)` in the monitored code cannot swallow it"""


class WatchdogFired(BaseException):
    pass


class StepMonitor(object):
    def __init__(self, root):
        self.root = os.path.join(os.path.realpath(root), "")
        self.count = 0
        self.budget = None
        self.hot = Counter()
        self.active = False
        self.exceeded = False
        self.installed = False
        self.failpoint_at = None  # raise `failpoint_exc` when count reaches this (fault injection)
        self.failpoint_exc = None
        self.failpoint_filter = None
        self.failpoint_seen = 0

    def install(self):
        if self.installed:
            return
        mon.use_tool_id(TOOL_ID, "vcdd-steps")
        mon.register_callback(TOOL_ID, mon.events.LINE, self._line)
        mon.set_events(TOOL_ID, mon.events.LINE)
        self.installed = True

    def uninstall(self):
        if self.installed:
            mon.set_events(TOOL_ID, 0)
            mon.register_callback(TOOL_ID, mon.events.LINE, None)
            mon.free_tool_id(TOOL_ID)
            self.installed = False

    def _line(self, code, line):
        fn = code.co_filename
        if not fn.startswith(self.root):
            return mon.DISABLE
        if not self.active:
            return None
        self.count += 1
        if self.failpoint_at is not None and (self.failpoint_filter is None or self.failpoint_filter(code, line)):
            # the failpoint counts only the line events of the code it targets (its k-th line), so that a late
            # stage is reached even when earlier stages consume most of the events
            self.failpoint_seen += 1
            if self.failpoint_seen >= self.failpoint_at:
                self.failpoint_at = None
                raise self.failpoint_exc
        if self.budget is not None and self.count > self.budget * 0.9:
            self.hot[(fn[len(self.root):], line)] += 1
            if self.count > self.budget:
                self.exceeded = True
                raise BudgetExceeded("%d line events > budget %d" % (self.count, self.budget))
        return None

    def run(self, fn, budget, wall_s=60):
        """-> (outcome, value, steps); outcome in returned / raised / budget / watchdog"""
        self.install()
        self.count, self.budget, self.exceeded = 0, budget, False
        self.failpoint_seen = 0
        self.hot.clear()

        def on_alarm(signum, frame):
            raise WatchdogFired()

        old = signal.signal(signal.SIGALRM, on_alarm)
        signal.alarm(wall_s)
        self.active = True
        try:
            try:
                v = fn()
                out = ("returned", v)
            except BudgetExceeded as e:
                out = ("budget", e)
            except WatchdogFired as e:
                out = ("watchdog", e)
            except RecursionError as e:
                out = ("raised", e)
            except BaseException as e:
                out = ("budget", e) if self.exceeded else ("raised", e)
        finally:
            self.active = False
            signal.alarm(0)
            signal.signal(signal.SIGALRM, old)
        return out[0], out[1], self.count

    def hottest(self, n=5):
        return [{"where": "%s:%d" % k, "hits": v} for k, v in self.hot.most_common(n)]
