"""Comparator for interface descriptions (IR) — only the normalisations the properties grant."""

import ast
import re

from vcdd.gen.irgen import NONE_STR, default_kind_of, type_kind_of

ABSENT = "<absent>"


def norm_doc(d):
    """collapse whitespace, drop a trailing 'Defaults to ...' clause, strip one terminal full stop"""
    if d is None:
        return ""
    d = re.sub(r"\.?\s*Defaults to .*$", "", d, flags=re.S)
    d = " ".join(d.split())
    return d[:-1] if d.endswith(".") else d


def dval(p):
    if "default" not in p:
        return ABSENT
    return p["default"]


def default_change(a, b):
    """describe *how* a default differs (value-free)"""
    if a == ABSENT:
        return "gained:" + type(b).__name__
    if b == ABSENT:
        return "lost"
    if isinstance(a, ast.AST) or isinstance(b, ast.AST):
        return "ast-object"
    if type(a) is not type(b):
        return "type:%s->%s" % (type(a).__name__, type(b).__name__)
    if isinstance(a, (int, float)) and not isinstance(a, bool) and a == -b:
        return "sign"
    return "value"


def same_default(a, b):
    if isinstance(a, ast.AST) and isinstance(b, ast.AST):
        return ast.dump(a) == ast.dump(b)
    return type(a) is type(b) and a == b


def norm_typ(typ):
    """a type string up to its spelling as a Python expression (quote marks of string literals, blanks)"""
    if not isinstance(typ, str):
        return typ
    try:
        return ast.unparse(ast.parse(typ.strip(), mode="eval"))
    except (SyntaxError, ValueError):
        return typ


def cmp_param(tag, idx, n, pa, pb, doc=True, typ=True, defaults=True):
    out = []
    base = {"where": tag, "index": idx, "n": n, "tkind": type_kind_of(pa.get("typ")), "dkind": default_kind_of(pa)}
    if typ and pa.get("typ") != pb.get("typ") and norm_typ(pa.get("typ")) != norm_typ(pb.get("typ")):
        how = "lost" if pb.get("typ") is None else ("gained" if pa.get("typ") is None else
                                                      "%s->%s" % (type_kind_of(pa.get("typ")), type_kind_of(pb.get("typ"))))
        out.append(dict(base, field="typ", how=how, exp=pa.get("typ"), got=pb.get("typ")))
    if defaults:
        da, db = dval(pa), dval(pb)
        if not same_default(da, db):
            out.append(dict(base, field="default", how=default_change(da, db), exp=repr(da), got=repr(db)))
    if doc and norm_doc(pa.get("doc")) != norm_doc(pb.get("doc")):
        out.append(dict(base, field="doc", how="changed", exp=pa.get("doc"), got=pb.get("doc")))
    return out


def cmp_ir(a, b, doc=True, typ=True, defaults=True, returns=True, ir_doc=False):
    """differences between expected IR `a` and observed IR `b`"""
    out = []
    ka, kb = list(a["params"]), list(b["params"])
    if ka != kb:
        how = "order" if sorted(ka) == sorted(kb) else ("missing" if set(kb) < set(ka) else
                                                          ("extra" if set(ka) < set(kb) else "different"))
        return [{"where": "names", "field": "names", "how": how, "exp": ka, "got": kb, "n": len(ka), "index": -1,
                 "tkind": "-", "dkind": "-"}]
    for i, k in enumerate(ka):
        ds = cmp_param("param", i, len(ka), a["params"][k], b["params"][k], doc, typ, defaults)
        for d in ds:
            d["name"] = k
        out += ds
    if returns:
        ra = (a.get("returns") or {}).get("return_type")
        rb = (b.get("returns") or {}).get("return_type")
        if (ra is None) != (rb is None):
            out.append({"where": "returns", "field": "presence", "how": "lost" if rb is None else "gained",
                        "exp": ra, "got": rb, "n": len(ka), "index": -1,
                        "tkind": type_kind_of((ra or rb).get("typ")), "dkind": default_kind_of(ra or rb)})
        elif ra is not None:
            out += cmp_param("return", -1, len(ka), ra, rb, doc, typ, defaults)
    if ir_doc and norm_doc(a.get("doc")) != norm_doc(b.get("doc")):
        out.append({"where": "ir", "field": "doc", "how": "changed", "exp": a.get("doc"), "got": b.get("doc"),
                    "n": len(ka), "index": -1, "tkind": "-", "dkind": "-"})
    return out


def canon(ir):
    """exact, hashable-ish canonical form for fixpoint comparison (C08): AST values by dump"""

    def cv(v):
        if isinstance(v, ast.AST):
            return "AST:" + ast.dump(v)
        if isinstance(v, dict):
            return {k: cv(x) for k, x in v.items()}
        if isinstance(v, (list, tuple)):
            return [cv(x) for x in v]
        return v if isinstance(v, (str, int, float, bool, type(None))) else repr(v)

    def cp(p):
        return {k: (type(v).__name__, cv(v)) for k, v in p.items()}

    return {
        "name": ir.get("name"),
        "doc": ir.get("doc"),
        "params": [(k, cp(v)) for k, v in ir["params"].items()],
        "returns": ({k: cp(v) for k, v in ir["returns"].items()} if ir.get("returns") else None),
    }
