"""Oracles for 'the program is unchanged' (C07, C12, C13)."""

import ast
import difflib
import io
import tokenize
from copy import deepcopy

DEFS = (ast.FunctionDef, ast.AsyncFunctionDef, ast.ClassDef)


def is_docstring_stmt(stmt):
    return isinstance(stmt, ast.Expr) and isinstance(stmt.value, ast.Constant) and isinstance(stmt.value.value, str)


class Eraser(ast.NodeTransformer):
    """drops docstring statements, parameter / return / variable annotations and type comments — nothing else"""

    def _body(self, node):
        # Which string statement *is* the docstring depends on position alone: when a conversion deletes an (empty)
        # docstring that is followed by another string statement, that one becomes the docstring. The whole leading run of
        # string statements is therefore erased here; `leading_string_runs` bounds how it may change.
        k = 0
        while k < len(node.body) and is_docstring_stmt(node.body[k]):
            k += 1
        node.body = node.body[k:]
        return node

    def visit_Module(self, node):
        self.generic_visit(node)
        return self._body(node)

    def visit_ClassDef(self, node):
        self.generic_visit(node)
        return self._body(node)

    def _func(self, node):
        self.generic_visit(node)
        node.returns = None
        node.type_comment = None
        return self._body(node)

    visit_FunctionDef = _func
    visit_AsyncFunctionDef = _func

    def visit_arg(self, node):
        node.annotation = None
        node.type_comment = None
        return node

    def visit_AnnAssign(self, node):
        self.generic_visit(node)
        if node.value is None:
            return ast.Pass()
        return ast.Assign(targets=[node.target], value=node.value, type_comment=None)

    def visit_Assign(self, node):
        self.generic_visit(node)
        node.type_comment = None
        return node


def erased_dump(tree):
    return ast.dump(Eraser().visit(deepcopy(tree)), include_attributes=False)


def first_difference(a, b, path="module"):
    """node path + field of the first structural difference between two (erased) ASTs"""
    if type(a) is not type(b):
        return "%s: %s != %s" % (path, type(a).__name__, type(b).__name__)
    if isinstance(a, ast.AST):
        for f in a._fields:
            va, vb = getattr(a, f, None), getattr(b, f, None)
            label = getattr(a, "name", None) or getattr(a, "arg", None) or getattr(a, "id", None)
            d = first_difference(va, vb, "%s/%s%s.%s" % (path, type(a).__name__, "[%s]" % label if label else "", f))
            if d:
                return d
        return None
    if isinstance(a, list):
        if len(a) != len(b):
            return "%s: %d items != %d items" % (path, len(a), len(b))
        for i, (x, y) in enumerate(zip(a, b)):
            d = first_difference(x, y, "%s[%d]" % (path, i))
            if d:
                return d
        return None
    if a != b:
        return "%s: %r != %r" % (path, a, b)
    return None


def leading_string_runs(tree):
    """{path of the definition: length of the run of string statements its body starts with}"""
    out = {}

    def walk(node, path):
        body = getattr(node, "body", None)
        if isinstance(node, (ast.Module,) + DEFS) and isinstance(body, list):
            k = 0
            while k < len(body) and is_docstring_stmt(body[k]):
                k += 1
            out[path] = k
        seen = {}
        for child in ast.iter_child_nodes(node):
            if isinstance(child, DEFS):
                n = seen[child.name] = seen.get(child.name, 0) + 1
                walk(child, path + ("%s#%d" % (child.name, n),))
            else:
                walk(child, path)

    walk(tree, ())
    return out


def erased_difference(before_tree, after_tree):
    a, b = Eraser().visit(deepcopy(before_tree)), Eraser().visit(deepcopy(after_tree))
    if ast.dump(a) != ast.dump(b):
        return first_difference(a, b) or "dumps differ"
    # a conversion may rewrite, add (to a definition that had none) or delete a docstring; it never adds a further string
    # statement: the leading run of string statements of a body grows to at most max(its old length, 1)
    rb, ra = leading_string_runs(before_tree), leading_string_runs(after_tree)
    for path, n_after in ra.items():
        n_before = rb.get(path, 0)
        if n_after > max(n_before, 1):
            return "module/%s.body: %d leading string statements != %d (a string statement was added)" % (
                "/".join(path) or "Module", n_after, n_before)
    return None


def comments(src, keep_type_comments=False):
    out = []
    try:
        for tok in tokenize.generate_tokens(io.StringIO(src).readline):
            if tok.type == tokenize.COMMENT:
                if keep_type_comments or not tok.string.replace(" ", "").startswith("#type:"):
                    out.append(tok.string)
    except (tokenize.TokenError, IndentationError, SyntaxError):
        return None
    return out


def mutable_lines(tree, src_lines):
    """1-based line numbers that a docstring/annotation conversion may legitimately touch:
    definition headers (decorators excluded), docstrings, annotated or type-commented assignments"""
    mut = set()
    headers = set()
    for node in ast.walk(tree):
        if isinstance(node, DEFS):
            first_body = node.body[0]
            end_header = first_body.lineno - 1 if first_body.lineno > node.lineno else node.lineno
            # a header may share its last line with the body (`def f(): pass`)
            for ln in range(node.lineno, max(end_header, node.lineno) + 1):
                mut.add(ln)
                headers.add(ln)
            if is_docstring_stmt(first_body):
                for ln in range(first_body.lineno, first_body.end_lineno + 1):
                    mut.add(ln)
                    headers.add(ln)
        elif isinstance(node, ast.Module) and node.body and is_docstring_stmt(node.body[0]):
            for ln in range(node.body[0].lineno, node.body[0].end_lineno + 1):
                mut.add(ln)
        elif isinstance(node, ast.AnnAssign):
            for ln in range(node.lineno, node.end_lineno + 1):
                mut.add(ln)
        elif isinstance(node, ast.Assign):
            line = src_lines[node.end_lineno - 1] if node.end_lineno <= len(src_lines) else ""
            if "# type:" in line or "#type:" in line:
                for ln in range(node.lineno, node.end_lineno + 1):
                    mut.add(ln)
    return mut, headers


def _subsequence_misses(needles, hay):
    """needles (in order) that cannot be matched as a subsequence of hay (greedy earliest match is exact)"""
    pos, missing = 0, []
    for ln, text in needles:
        try:
            pos = hay.index(text, pos) + 1
        except ValueError:
            missing.append((ln, text))
    return missing


def line_identity_violations(before, after, before_tree, after_tree=None):
    """Every non-empty line of `before` outside definition headers / docstrings / annotated assignments must
    survive byte-identical and in order (a subsequence of `after`); symmetrically, `after` must not contain
    new non-blank lines outside such spans. Independent of any diff alignment."""
    bl, al = before.splitlines(True), after.splitlines(True)
    mut_b, _ = mutable_lines(before_tree, bl)
    out = []
    # (empty lines may come and go around rewritten docstrings; a blank line that carries white space is a line like any
    # other and must survive byte for byte)
    keep = [(i + 1, l) for i, l in enumerate(bl) if (i + 1) not in mut_b and l.rstrip("\r\n")]
    # a line that lost only its trailing newline at EOF is still the same line
    al_n = [l if l.endswith("\n") else l + "\n" for l in al]
    miss = _subsequence_misses([(ln, l if l.endswith("\n") else l + "\n") for ln, l in keep], al_n)
    if miss:
        out.append({"kind": "replace", "before_lines": [ln for ln, _ in miss[:5]], "text": [t for _, t in miss[:3]]})
    if after_tree is not None:
        mut_a, _ = mutable_lines(after_tree, al)
        new = [(i + 1, l if l.endswith("\n") else l + "\n") for i, l in enumerate(al) if (i + 1) not in mut_a
               and l.rstrip("\r\n")]
        bl_n = [l if l.endswith("\n") else l + "\n" for l in bl]
        extra = _subsequence_misses(new, bl_n)
        if extra:
            out.append({"kind": "insert", "after_lines": [ln for ln, _ in extra[:5]], "text": [t for _, t in extra[:3]]})
    return out
