"""Oracles for 'the program is unchanged' (C07, C12, C13)."""

import ast
import difflib
import io
import tokenize
from copy import deepcopy

DEFS = (ast.FunctionDef, ast.AsyncFunctionDef, ast.ClassDef)


def is_docstring_stmt(stmt):
    return isinstance(stmt, ast.Expr) and isinstance(stmt.value, ast.Constant) and isinstance(stmt.value.value, str)


class Eraser(ast.NodeTransformer):
    """drops docstring statements, parameter / return / variable annotations and type comments — nothing else"""

    def _body(self, node):
        if node.body and is_docstring_stmt(node.body[0]):
            node.body = node.body[1:]
        return node

    def visit_Module(self, node):
        self.generic_visit(node)
        return self._body(node)

    def visit_ClassDef(self, node):
        self.generic_visit(node)
        return self._body(node)

    def _func(self, node):
        self.generic_visit(node)
        node.returns = None
        node.type_comment = None
        return self._body(node)

    visit_FunctionDef = _func
    visit_AsyncFunctionDef = _func

    def visit_arg(self, node):
        node.annotation = None
        node.type_comment = None
        return node

    def visit_AnnAssign(self, node):
        self.generic_visit(node)
        if node.value is None:
            return ast.Pass()
        return ast.Assign(targets=[node.target], value=node.value, type_comment=None)

    def visit_Assign(self, node):
        self.generic_visit(node)
        node.type_comment = None
        return node


def erased_dump(tree):
    return ast.dump(Eraser().visit(deepcopy(tree)), include_attributes=False)


def first_difference(a, b, path="module"):
    """node path + field of the first structural difference between two (erased) ASTs"""
    if type(a) is not type(b):
        return "%s: %s != %s" % (path, type(a).__name__, type(b).__name__)
    if isinstance(a, ast.AST):
        for f in a._fields:
            va, vb = getattr(a, f, None), getattr(b, f, None)
            label = getattr(a, "name", None) or getattr(a, "arg", None) or getattr(a, "id", None)
            d = first_difference(va, vb, "%s/%s%s.%s" % (path, type(a).__name__, "[%s]" % label if label else "", f))
            if d:
                return d
        return None
    if isinstance(a, list):
        if len(a) != len(b):
            return "%s: %d items != %d items" % (path, len(a), len(b))
        for i, (x, y) in enumerate(zip(a, b)):
            d = first_difference(x, y, "%s[%d]" % (path, i))
            if d:
                return d
        return None
    if a != b:
        return "%s: %r != %r" % (path, a, b)
    return None


def erased_difference(before_tree, after_tree):
    a, b = Eraser().visit(deepcopy(before_tree)), Eraser().visit(deepcopy(after_tree))
    if ast.dump(a) == ast.dump(b):
        return None
    return first_difference(a, b) or "dumps differ"


def comments(src, keep_type_comments=False):
    out = []
    try:
        for tok in tokenize.generate_tokens(io.StringIO(src).readline):
            if tok.type == tokenize.COMMENT:
                if keep_type_comments or not tok.string.replace(" ", "").startswith("#type:"):
                    out.append(tok.string)
    except (tokenize.TokenError, IndentationError, SyntaxError):
        return None
    return out


def mutable_lines(tree, src_lines):
    """1-based line numbers that a docstring/annotation conversion may legitimately touch:
    definition headers (decorators excluded), docstrings, annotated or type-commented assignments"""
    mut = set()
    headers = set()
    for node in ast.walk(tree):
        if isinstance(node, DEFS):
            first_body = node.body[0]
            end_header = first_body.lineno - 1 if first_body.lineno > node.lineno else node.lineno
            # a header may share its last line with the body (`def f(): pass`)
            for ln in range(node.lineno, max(end_header, node.lineno) + 1):
                mut.add(ln)
                headers.add(ln)
            if is_docstring_stmt(first_body):
                for ln in range(first_body.lineno, first_body.end_lineno + 1):
                    mut.add(ln)
                    headers.add(ln)
        elif isinstance(node, ast.Module) and node.body and is_docstring_stmt(node.body[0]):
            for ln in range(node.body[0].lineno, node.body[0].end_lineno + 1):
                mut.add(ln)
        elif isinstance(node, ast.AnnAssign):
            for ln in range(node.lineno, node.end_lineno + 1):
                mut.add(ln)
        elif isinstance(node, ast.Assign):
            line = src_lines[node.end_lineno - 1] if node.end_lineno <= len(src_lines) else ""
            if "# type:" in line or "#type:" in line:
                for ln in range(node.lineno, node.end_lineno + 1):
                    mut.add(ln)
    return mut, headers


def line_identity_violations(before, after, before_tree):
    """lines of `before` outside mutable spans must survive byte-identical, in order"""
    bl, al = before.splitlines(True), after.splitlines(True)
    mut, headers = mutable_lines(before_tree, bl)
    out = []
    sm = difflib.SequenceMatcher(a=bl, b=al, autojunk=False)
    for tag, i1, i2, j1, j2 in sm.get_opcodes():
        if tag == "equal":
            continue
        if tag in ("replace", "delete"):
            # difflib's alignment inside a rewritten region is heuristic: the immutable, non-blank lines of
            # the region must occur, in order and byte-identical, in the region that replaced it
            keep = [ln for ln in range(i1 + 1, i2 + 1) if ln not in mut and bl[ln - 1].strip()]
            region = al[j1:j2] if tag == "replace" else []
            pos, bad = 0, []
            for ln in keep:
                try:
                    pos = region.index(bl[ln - 1], pos) + 1
                except ValueError:
                    bad.append(ln)
            if bad:
                out.append({"kind": tag, "before_lines": bad[:5], "text": [bl[ln - 1] for ln in bad[:3]],
                            "after_text": al[j1:j2][:3]})
        if tag in ("insert", "replace") and tag == "insert":
            prev_ok = i1 in headers or (i1 + 1) in mut or i1 in mut
            new = [l for l in al[j1:j2] if l.strip()]
            if new and not prev_ok:
                out.append({"kind": "insert", "after_position": i1, "text": new[:3]})
    return out
