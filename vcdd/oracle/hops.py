"""hop(ir, fmt, **opts): real emitter -> rendered text -> re-read text -> real parser."""

import ast
import json
from copy import deepcopy

import cdd.argparse_function.emit
import cdd.argparse_function.parse
import cdd.class_.emit
import cdd.class_.parse
import cdd.docstring.emit
import cdd.docstring.parse
import cdd.function.emit
import cdd.function.parse
import cdd.json_schema.emit
import cdd.json_schema.parse
import cdd.pydantic.emit
import cdd.pydantic.parse
import cdd.sqlalchemy.emit
import cdd.sqlalchemy.parse
from cdd.shared.source_transformer import to_code

FORMATS = ("class", "pydantic", "function", "argparse", "docstring", "json_schema", "sqlalchemy",
           "sqlalchemy_table", "sqlalchemy_hybrid")


def emit(ir, fmt, **kw):
    """-> (node_or_obj, source_text). Works on a deepcopy (several emitters mutate) unless `_share=True` is passed: then
    the caller's object goes to the emitter as it is, as in code that emits several targets from one description."""
    if not kw.pop("_share", False):
        ir = deepcopy(ir)
    # NB: module attributes are looked up at call time so that installed contracts are hit
    if fmt == "class":
        node = cdd.class_.emit.class_(ir, class_name=ir["name"], **kw)
    elif fmt == "pydantic":
        node = cdd.pydantic.emit.pydantic(ir, class_name=ir["name"], **kw)
    elif fmt == "function":
        kw.setdefault("function_type", "static")
        node = cdd.function.emit.function(ir, function_name=ir["name"], **kw)
    elif fmt == "argparse":
        node = cdd.argparse_function.emit.argparse_function(ir, **kw)
    elif fmt == "docstring":
        src = cdd.docstring.emit.docstring(ir, **kw)
        return src, src
    elif fmt == "json_schema":
        d = cdd.json_schema.emit.json_schema(ir, **kw)
        return d, json.dumps(d)
    elif fmt in ("sqlalchemy", "sqlalchemy_hybrid"):
        node = getattr(cdd.sqlalchemy.emit, fmt)(ir, class_name=ir["name"], **kw)
    elif fmt == "sqlalchemy_table":
        node = cdd.sqlalchemy.emit.sqlalchemy_table(ir, name=ir["name"], **kw)
    else:
        raise ValueError(fmt)
    return node, to_code(node)


def parse(src, fmt, **kw):
    """source text -> IR with the matching real parser"""
    if fmt == "docstring":
        return cdd.docstring.parse.docstring(src, **kw)
    if fmt == "json_schema":
        return cdd.json_schema.parse.json_schema(json.loads(src), **kw)
    compile(src, "<emitted %s>" % fmt, "exec")  # (the compiler refuses more than the grammar does, e.g. a repeated keyword)
    node = ast.parse(src).body[0]
    if fmt == "class":
        return cdd.class_.parse.class_(node, **kw)
    if fmt == "pydantic":
        return cdd.pydantic.parse.pydantic(node, **kw)
    if fmt == "function":
        return cdd.function.parse.function(node, **kw)
    if fmt == "argparse":
        return cdd.argparse_function.parse.argparse_ast(node, **kw)
    if fmt in ("sqlalchemy", "sqlalchemy_table", "sqlalchemy_hybrid"):
        return getattr(cdd.sqlalchemy.parse, fmt)(node, **kw)
    raise ValueError(fmt)


def hop(ir, fmt, emit_kw=None, parse_kw=None):
    node, src = emit(ir, fmt, **(emit_kw or {}))
    return src, parse(src, fmt, **(parse_kw or {}))
