"""Package generator for exmod: small package trees (1..3 levels) whose modules hold classes /
functions re-exported through __init__ / __all__, installed into the site-packages of a throw-away
venv chained to the repository's interpreter (no pip, nothing fetched)."""

import os
import subprocess
import sys
import sysconfig

from vcdd.gen import irgen
from vcdd.oracle import hops


def make_venv(root, base_python=sys.executable):
    """-> (venv python, its purelib). Offline: `python -m venv --without-pip` + a one-line .pth"""
    vdir = os.path.join(root, "venv")
    subprocess.run([base_python, "-m", "venv", "--without-pip", vdir], check=True, stdout=subprocess.PIPE,
                   stderr=subprocess.PIPE)
    vpy = os.path.join(vdir, "bin", "python")
    purelib = subprocess.run([vpy, "-c", "import sysconfig; print(sysconfig.get_paths()['purelib'])"], check=True,
                             stdout=subprocess.PIPE).stdout.decode().strip()
    base_site = sysconfig.get_paths()["purelib"]
    with open(os.path.join(purelib, "base.pth"), "w") as f:
        f.write("import site; site.addsitedir(%r)\n" % base_site)
    return vpy, purelib


def w(path, text):
    os.makedirs(os.path.dirname(path), exist_ok=True)
    with open(path, "w") as f:
        f.write(text)


BUILTIN_LIKE = ("ConnectionError", "TimeoutError", "Warning", "format", "filter", "hash", "type", "object", "open", "id")


def gen_package(r, purelib, name):
    """-> description {"pkg", "modules": {fqn: {"file", "symbols": [..]}}, "leaf_packages": [...]}.
    Layout: <pkg>/__init__.py ; <pkg>/<sub>/__init__.py ; <pkg>/<sub>/<mod>.py (+ optional third level)"""
    root = os.path.join(purelib, name)
    desc = {"pkg": name, "modules": {}, "subpackages": []}
    n_sub = r.randint(1, 3)
    sub_names = r.sample(["alpha", "beta", "gamma", "delta"], n_sub)
    # letter case is part of a module's name: some trees spell a sub-package / a module file with capitals
    rc = __import__("random").Random(r.random())
    if rc.random() < 0.3:
        sub_names = [{"alpha": "Alpha2D", "beta": "BetaKit", "gamma": "Gamma", "delta": "deltaX"}[s_] if rc.random() < 0.6 else s_
                     for s_ in sub_names]
    cap_mods = rc.random() < 0.25
    top_imports, top_all = [], []
    used_builtin_like = set()
    for sub in sub_names:
        depth3 = r.random() < 0.3
        subpkg = "%s.%s" % (name, sub)
        desc["subpackages"].append(subpkg)
        mods = r.sample(["models", "config", "things", "ops"], r.randint(1, 2))
        if cap_mods:
            mods = [{"models": "Models_defs", "config": "Config", "things": "thingsV2", "ops": "OPS"}[m_] for m_ in mods]
        sub_imports, sub_all = [], []
        for m in mods:
            syms = []
            body = ["from typing import Optional, Literal, List", ""]
            for _ in range(r.randint(1, 2)):
                cname = r.choice(["Conf", "Model", "Node", "Edge", "Thing", "Setup"]) + m.title().replace("_", "") + sub.title()
                rb = __import__("random").Random(r.random())
                if rb.random() < 0.2:
                    # a package's own `ConnectionError`, a `format` helper: exported names that are also names of builtins
                    free = [b for b in BUILTIN_LIKE if b not in used_builtin_like]
                    if free:
                        cname = rb.choice(free)
                        used_builtin_like.add(cname)
                if cname in syms:
                    continue
                ir = irgen.rand_ir(r, nparams=r.randint(1, 3), type_kinds=("int", "float", "str", "bool", "optional"),
                                   default_kinds=("absent", "int", "float", "str", "bool"), with_return=False, name=cname)
                rk = __import__("random").Random(r.random())
                if rk.random() < 0.3:
                    # an attribute the SQL emitters take for the primary key (by its name), nullable a good half of the time
                    key = rk.choice(("account_id", "owner_name", "id_code", "id"))
                    if key not in ir["params"]:
                        ir["params"][key] = {"typ": rk.choice(("Optional[int]", "Optional[str]", "int")),
                                             "doc": irgen.rand_doc(rk, stop=False)}
                        ir["params"].move_to_end(key, last=rk.random() < 0.5)
                body.append(hops.emit(ir, "class")[1])
                body.append("")
                syms.append(cname)
            if r.random() < 0.4:
                # a top-level function next to the classes, re-exported like them
                fname = r.choice(["scale", "load", "build", "check"]) + "_" + m.lower() + "_" + sub.lower()
                fir = irgen.rand_ir(r, nparams=r.randint(1, 3), type_kinds=("int", "float", "str", "bool"),
                                    default_kinds=("int", "float", "str", "bool"), all_defaults=True, with_return=False,
                                    name=fname)
                body.append(hops.emit(fir, "function", function_type="static")[1])
                body.append("")
                syms.append(fname)
            body.append("__all__ = %r" % syms)
            rel_dir = os.path.join(root, sub, "deep") if depth3 else os.path.join(root, sub)
            fqn = "%s.%s%s" % (subpkg, "deep." if depth3 else "", m)
            w(os.path.join(rel_dir, m + ".py"), "\n".join(body) + "\n")
            desc["modules"][fqn] = {"file": os.path.join(rel_dir, m + ".py"), "symbols": syms}
            sub_imports.append("from %s import %s" % (fqn, ", ".join(syms)))
            sub_all += syms
        if depth3:
            w(os.path.join(root, sub, "deep", "__init__.py"), "\n".join(
                "from %s.deep.%s import %s" % (subpkg, m, ", ".join(desc["modules"]["%s.deep.%s" % (subpkg, m)]["symbols"]))
                for m in mods) + "\n\n__all__ = %r\n" % sub_all)
        w(os.path.join(root, sub, "__init__.py"), "\n".join(sub_imports) + "\n\n__all__ = %r\n" % sub_all)
        top_imports.append("from %s import %s" % (subpkg, ", ".join(sub_all)))
        top_all += sub_all
    if r.random() < 0.45:
        # a plain module next to the sub-packages: the package's __init__ then re-exports from a module *and* from
        # sub-packages (the generated __init__ of such a tree is written twice: imports first, merged classes later)
        m = r.choice(["core", "base", "common"])
        syms, body = [], ["from typing import Optional, Literal, List", ""]
        for _ in range(r.randint(1, 2)):
            cname = r.choice(["Root", "Base", "Shared", "Common"]) + m.title()
            if cname in syms:
                continue
            ir = irgen.rand_ir(r, nparams=r.randint(1, 3), type_kinds=("int", "float", "str", "bool", "optional"),
                               default_kinds=("absent", "int", "float", "str", "bool"), with_return=False, name=cname)
            body += [hops.emit(ir, "class")[1], ""]
            syms.append(cname)
        body.append("__all__ = %r" % syms)
        w(os.path.join(root, m + ".py"), "\n".join(body) + "\n")
        desc["modules"]["%s.%s" % (name, m)] = {"file": os.path.join(root, m + ".py"), "symbols": syms}
        top_imports.insert(r.randint(0, len(top_imports)), "from %s.%s import %s" % (name, m, ", ".join(syms)))
        top_all += syms
    w(os.path.join(root, "__init__.py"), "\n".join(top_imports) + '\n\n__author__ = "me"\n__version__ = "0.0.1"\n\n__all__ = %r\n'
      % (["__author__", "__version__"] + top_all))
    return desc
