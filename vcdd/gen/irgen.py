"""Interface-description (IR) generator: class matrix + seeded random interfaces.

Every generated IR comes with a *shape descriptor* (`shape(ir)`) used for input-class
accounting and for mechanism keys: it never contains the random words/values themselves.
"""

import ast
import random
import re
from collections import OrderedDict

try:  # the None marker depends on the interpreter version (```(None)``` on 3.9+)
    from cdd.shared.ast_utils import NoneStr as NONE_STR
except Exception:  # pragma: no cover
    NONE_STR = "```(None)```"

NAMES = [
    "alpha", "beta", "gamma", "delta", "eps", "zeta", "eta", "theta", "iota", "kappa",
    "lam", "mu", "nu", "xi", "omicron", "pi_", "rho", "sigma", "tau", "ups", "data_loader",
    "as_numpy", "k2", "dataset_name",
    # unusual but legal identifiers
    "_private", "__dunder__", "CamelCase", "UPPER", "x", "na\u00efve", "class_", "a1", "type", "param", "default",
    # look-alikes of names with a meaning elsewhere (receiver, section words, the return entry)
    "self_mask", "cls_token", "returns", "kwargs_", "args_",
]
# words that never trigger cdd's prose->type inference (no number/whether/path/string/list/of/or/...)
WORDS = [
    "the", "value", "used", "for", "training", "loops", "over", "batch", "with", "size", "amount",
    "kind", "thing", "that", "matters", "when", "running", "fast", "slow", "route", "engine",
    "widget", "colour", "level", "depth", "margin", "weight", "signal",
]
# prose that talks about code: Python keywords as plain English words ("the base class", "every def below"), used by the
# program generator for docstrings and comments (enabled with `extra_words`)
CODE_WORDS = ["class", "def", "base class", "the parent class", "plain def", "return", "import", "lambda", "async",
              "class of", "def of", "which class", "from", "with", "pass"]
EXTRA = []


class extra_words(object):
    """context manager: widen the prose vocabulary of rand_doc / docgen.sentence"""

    def __init__(self, words):
        self.words = list(words)

    def __enter__(self):
        EXTRA.extend(self.words)

    def __exit__(self, *a):
        del EXTRA[len(EXTRA) - len(self.words):]


def vocab():
    return WORDS + EXTRA if EXTRA else WORDS


TRIGGER_PHRASES = [
    "number of items", "whether to shuffle", "path to the data", "string to print", "list of things",
    "integer count", "float value", "dict with settings", "one of these or those", "boolean flag",
    "a name or an id", "tuple of sizes", "callable hook", "can be `foo` or `bar`",
]
SCALARS = ["int", "float", "str", "bool"]
LITERAL_POOL = ["np", "tf", "torch", "jax", "aa", "bb", "cc", "sgd", "adam", "read_only", "http2", "mp3", "v2_beta", "utf-8", "v1.0", "read only",
                "c++", "a  b"]  # (members with characters a regular expression, a shell or a splitter would interpret)
DOTTED = ["np.ndarray", "tf.data.Dataset", "collections.OrderedDict"]

TYPE_KINDS = ("int", "float", "str", "bool", "optional", "literal", "list", "union", "dotted", "dict", "listbare")
DEFAULT_KINDS = (
    "absent", "int", "negint", "zero", "float", "negfloat", "smallfloat", "bool", "str", "strspace",
    "strtilde", "strdot", "emptystr", "none", "code",
)


# descriptions with punctuation that means something elsewhere (colons, brackets, quotes, '#', '%', braces, '=', '*')
PUNCT_TEMPLATES = ("%s: %s", "%s:", "%s (in %s)", "%s, %s; %s", "%s - %s", "%s/%s ratio", "`%s` %s", "the '%s' %s",
                   'the "%s" %s', "%s #%s here", "%s 100%% %s", "%s {%s} here", "e.g. %s", "i.e. %s one", "%s = %s",
                   "%s > %s", "%s * %s", "%s_%s name", "3 %s", "see http://x.y/%s", "%s {{%s}} here", "an empty {} %s", "%s } %s",
                   "%s %%s and %%(name)s", "caf\u00e9 %s \u03bb", "%s \u2014 %s", "%s {0} and {name!r}")
# str defaults with characters that are delimiters elsewhere (every one of these round-trips on the unchanged tree)
STRODD = ["it's", "100%", "{x}", "#tag", "a:b", "a=b", "a,b", "(x)", "[x]", "x;y", " lead", "trail ", "a|b", "True", "5", "-3",
          "1.5", "'", "%s"]  # (the last two: a lone quote character, a directive)
# (a double quote, a backslash or a backtick inside a str default are genuine defects of the docstring layer: probe only)
STRBAD = ['say "hi"', '"hi" he said', '3"', '5" nail', "a\\b", "`tick`", '"', "\\t",
          # one kind of quote at the front, the other at the back: no quoted literal, whatever a stripper of "a quote at
          # either end" may think
          "'yes' or \"no\"", "'tis \"fine\"", "\"x\" or 'y'"]
# str defaults that open and / or close with a quote character
STRQUOTE = ["'a\"", "\"b'", "'tis", "x'", "\"", "''"]  # (a value that starts and ends with the same quote character is how the IR spells a quoted literal: not a distinct value)
NESTED_TYPES = ["Optional[List[int]]", "Union[int, str, float]", "List[Optional[str]]", "Dict[str, int]", "Tuple[int, str]",
                "Optional[Union[int, str]]", "List[List[int]]", "Optional[Literal['a', 'b']]", "Literal['only']",
                "Literal['a b', 'c']"]


# descriptions that open and / or close with a quote character (of the same or of different kinds)
QUOTED_TEMPLATES = ("'%s' or \"%s\"", "\"%s\" then '%s'", "'%s' and '%s'", "\"%s\" %s \"%s\"", "'%s' first", "use \"%s\"",
                    "%s's %s", "'%s %s", "%s \"%s", "'%s'", "\"%s %s\"", "'%s means \"%s\"", "\"%s and '%s'")


def quoted_doc(r):
    t = r.choice(QUOTED_TEMPLATES)
    return t % tuple(r.choice(WORDS) for _ in range(t.count("%s")))


def punct_doc(r):
    t = r.choice(PUNCT_TEMPLATES)
    return t % tuple(r.choice(WORDS) for _ in range(len(re.findall(r"(?<!%)%s", t))))


def rand_doc(r, n=None, trigger=False, multiline=False, stop=None, long=False):
    n = n or (r.randint(18, 40) if long else r.randint(1, 6))  # long: wraps under word_wrap (> 80/100 columns)
    words = [r.choice(vocab()) for _ in range(n)]
    if trigger:
        words.insert(r.randint(0, len(words)), r.choice(TRIGGER_PHRASES))
    doc = " ".join(words)
    if multiline and len(words) > 2:
        k = r.randint(1, len(words) - 1)
        doc = " ".join(words[:k]) + "\n" + " ".join(words[k:])
    if stop if stop is not None else r.random() < 0.3:
        doc += "."
    return doc


def make_type(r, kind):
    if kind in SCALARS:
        return kind
    if kind == "optional":
        return "Optional[%s]" % r.choice(SCALARS)
    if kind == "literal":
        mem = r.sample(LITERAL_POOL, r.randint(2, 4))
        return "Literal[%s]" % ", ".join(repr(m) for m in mem)
    if kind == "literaldq":
        # the same type as an author of a docstring / JSON document would spell it: double-quoted members
        mem = r.sample(LITERAL_POOL, r.randint(1, 3))
        return r.choice(("Literal[%s]", "Optional[Literal[%s]]", "Literal[%s]")) % ", ".join('"%s"' % m for m in mem)
    if kind == "list":
        return "List[%s]" % r.choice(SCALARS)
    if kind == "union":
        return "Union[%s]" % ", ".join(r.sample(SCALARS, 2))
    if kind == "dotted":
        return r.choice(DOTTED)
    if kind == "complex":
        return "complex"
    if kind == "nested":
        return r.choice(NESTED_TYPES)
    if kind == "dict":
        return "dict"
    if kind == "listbare":
        return "list"
    raise ValueError(kind)


def base_of(typ):
    m = re.match(r"Optional\[(.*)\]$", typ)
    return m.group(1) if m else typ


def make_default(r, typ, dkind):
    """value for (typ, default kind) or KeyError-like None marker `...` (Ellipsis) if not applicable"""
    base = base_of(typ)
    if dkind == "absent":
        return Ellipsis
    if dkind == "none":
        return NONE_STR
    if dkind == "code":
        if base in DOTTED:
            return {"np.ndarray": "```np.empty(0)```", "tf.data.Dataset": "```tf.data.Dataset.range(3)```",
                    "collections.OrderedDict": "```collections.OrderedDict()```"}[base]
        if base.startswith("List[") or base == "list":
            return "```[]```"
        if base == "dict":
            return "```{}```"
        return None
    if base.startswith("Literal["):
        return r.choice(ast.literal_eval(base[len("Literal"):])) if dkind == "str" else None
    if base.startswith("Union["):
        base = r.choice(base[len("Union["):-1].split(", "))
    table = {
        "int": {"int": [5, 42, 7, 1], "negint": [-3, -100, -1], "zero": [0]},
        "float": {"float": [0.5, 3.25, 2.0], "negfloat": [-1.5, -0.001], "smallfloat": [1e-07], "zero": [0.0]},
        "str": {"str": ["hello", "mnist", "a_b", "r", ",", "ab", "0", "\u00e9"], "strspace": ["x y"], "strtilde": ["~/dir"], "strdot": ["a.b"],
                "emptystr": [""], "strodd": STRODD, "strbad": STRBAD, "strquote": STRQUOTE},
        "bool": {"bool": [True, False]},
        # a default whose text only reads correctly once the type is known ('1j' is no int / float / bool literal)
        "complex": {"imag": [1j, 2.5j, 3j]},
    }
    vals = table.get(base, {}).get(dkind)
    return r.choice(vals) if vals else None


def admissible_default_kinds(typ):
    base = base_of(typ)
    out = ["absent"]
    if typ.startswith("Optional["):
        out.append("none")
    if base == "int":
        out += ["int", "negint", "zero"]
    elif base == "float":
        out += ["float", "negfloat", "smallfloat", "zero"]
    elif base == "str":
        out += ["str", "strspace", "strtilde", "strdot", "emptystr", "strodd", "strbad", "strquote"]
    elif base == "bool":
        out += ["bool"]
    elif base == "complex":
        out += ["imag"]
    elif base.startswith("Literal["):
        out += ["str"]
    elif base.startswith("Union["):
        out += ["int", "float", "str", "bool"]
    elif base in DOTTED or base.startswith("List[") or base in ("list", "dict"):
        out += ["code"]
    return out


def make_param(r, tkind, dkind, doc_kind="plain"):
    typ = make_type(r, tkind)
    p = OrderedDict()
    if tkind == "nested":
        dkind = "absent"  # nested types are about the type string; they carry no default
    if doc_kind == "quoted":
        p["doc"] = quoted_doc(r)
    elif doc_kind == "punct":
        p["doc"] = punct_doc(r)
    elif doc_kind != "none":
        p["doc"] = rand_doc(r, trigger=doc_kind == "trigger", multiline=doc_kind == "multiline",
                            stop=True if doc_kind == "stop" else None, long=doc_kind == "long")
    p["typ"] = typ
    d = make_default(r, typ, dkind)
    if d is None:  # kind not applicable to this type: fall back to an applicable one (plain kinds first)
        alts = admissible_default_kinds(typ)[1:]
        for alt in sorted(alts, key=lambda k: k in ("none", "code", "emptystr", "strdot", "strodd", "strbad", "strquote")):
            d = make_default(r, typ, alt)
            if d is not None:
                break
        else:
            d = Ellipsis
    if d is not Ellipsis:
        p["default"] = d
    return p


def default_kind_of(p):
    if "default" not in p:
        return "absent"
    d = p["default"]
    if d is None or (isinstance(d, str) and d in (NONE_STR, "```None```", "```(None)```")):
        return "none"
    if isinstance(d, bool):
        return "bool"
    if isinstance(d, int):
        return "zero" if d == 0 else ("negint" if d < 0 else "int")
    if isinstance(d, complex):
        return "imag"
    if isinstance(d, float):
        if d == 0:
            return "zero"
        return "negfloat" if d < 0 else ("smallfloat" if "e" in repr(d) else "float")
    if isinstance(d, str):
        if d.startswith("```"):
            return "code"
        if d in STRODD:
            return "strodd"
        if d in STRBAD:
            return "strbad"
        if d in STRQUOTE:
            return "strquote"
        if d == "":
            return "emptystr"
        if " " in d:
            return "strspace"
        if "~" in d or "/" in d:
            return "strtilde"
        if "." in d:
            return "strdot"
        return "str"
    return type(d).__name__


def type_kind_of(typ):
    if typ is None:
        return "notype"
    if typ in SCALARS or typ == "complex":
        return typ
    for pre, k in (("Optional[", "optional"), ("Literal[", "literal"), ("List[", "list"), ("Union[", "union")):
        if typ.startswith(pre):
            return k
    if typ == "dict":
        return "dict"
    if typ == "list":
        return "listbare"
    if "." in typ:
        return "dotted"
    return "other"


def make_ir(r, params, name="Foo", returns=None, doc=None):
    return {
        "name": name,
        "type": "static",
        "doc": rand_doc(r, r.randint(2, 8), stop=False) if doc is None else doc,
        "params": params,
        "returns": returns,
    }


def rand_ir(r, nparams=None, type_kinds=TYPE_KINDS, default_kinds=None, suffix_defaults=True,
            with_return=None, doc_kinds=("plain",), name="Foo", all_defaults=False, max_params=6,
            return_default=False):
    """Random interface. `suffix_defaults`: parameters with defaults form a suffix (signature-legal)."""
    n = r.randint(0, max_params) if nparams is None else nparams
    names = r.sample(NAMES, n)
    if default_kinds is None:
        default_kinds = DEFAULT_KINDS  # (kinds added later - imag, strodd, strbad - are opt-in)
    first_default = 0 if all_defaults else r.randint(0, n)
    params = OrderedDict()
    for i, nm in enumerate(names):
        tkind = r.choice(type_kinds)
        typ_probe = make_type(r, tkind)
        adm = admissible_default_kinds(typ_probe)
        if default_kinds is not None:
            adm = [k for k in adm if k in default_kinds] or ["absent"]
        wants = (i >= first_default) if suffix_defaults else (r.random() < 0.6)
        nonabsent = [k for k in adm if k != "absent"]
        if wants and not nonabsent:
            # a type without any admissible default in suffix position: use a scalar instead
            tkind = r.choice([k for k in type_kinds if k in SCALARS] or ["int"])
            nonabsent = [k for k in admissible_default_kinds(tkind) if k != "absent"
                         and (default_kinds is None or k in default_kinds)] or ["int"]
        dkind = r.choice(nonabsent) if wants else "absent"
        r2_state = r.getstate()
        p = make_param(r, tkind, dkind, r.choice(doc_kinds))
        if wants and "default" not in p:
            r.setstate(r2_state)
            p = make_param(r, "int", "int", r.choice(doc_kinds))
        params[nm] = p
    ret = None
    wr = r.random() < 0.5 if with_return is None else with_return
    if wr:
        tkind = r.choice(type_kinds)
        rp = make_param(r, tkind, "absent", r.choice(doc_kinds))
        if return_default:
            # a return entry's default is the returned *expression*, carried code-quoted in the IR
            typ = rp["typ"]
            for alt in admissible_default_kinds(typ)[1:]:
                d = make_default(r, typ, alt)
                if d is not None and alt not in ("none", "code", "emptystr", "strdot", "strspace", "strtilde", "strodd",
                                                 "strbad", "strquote"):
                    rp["default"] = "```%r```" % (d,)
                    break
        ret = OrderedDict([("return_type", rp)])
    ir = make_ir(r, params, name=name, returns=ret)
    if "punct" in doc_kinds and random.Random(r.random()).random() < 0.4:
        ir["doc"] = "%s %s" % (ir["doc"], punct_doc(r))  # the interface's own description carries punctuation too
    return ir


FAMILIES = (("size", "size_", "sizes", "batch_size", "size2", "resize"), ("x", "x1", "x_", "xx", "_x", "ax"),
            ("name", "names", "name_", "dataset_name", "rename", "name2"), ("lr", "lr_", "lrs", "lr_decay", "_lr", "lr2"))


def similar_ir(r, type_kinds=("int", "float", "str", "bool"), default_kinds=("absent", "int", "float", "str", "bool"),
               name="Foo", with_return=None, all_defaults=False):
    """entries that resemble each other: names sharing a prefix / suffix, two identical descriptions, equal types and
    equal defaults - what a lookup by `startswith`, `find` or by value would confuse"""
    fam = r.choice(FAMILIES)
    names = r.sample(fam, r.randint(3, len(fam)))
    ir = rand_ir(r, nparams=len(names), type_kinds=type_kinds, default_kinds=default_kinds, name=name,
                 with_return=with_return, all_defaults=all_defaults)
    vals = list(ir["params"].values())
    if len(vals) >= 2 and r.random() < 0.7:
        i, j = r.sample(range(len(vals)), 2)
        vals[j]["doc"] = vals[i]["doc"]  # the same description twice
        if r.random() < 0.5 and ("default" in vals[i]) == ("default" in vals[j]):
            vals[j]["typ"] = vals[i]["typ"]
            if "default" in vals[i]:
                vals[j]["default"] = vals[i]["default"]
    ir["params"] = OrderedDict(zip(names, vals))
    return ir


def matrix_cases(type_kinds=TYPE_KINDS, default_kinds=DEFAULT_KINDS):
    """Deterministic enumeration: every type kind x every admissible default kind x position
    (first / middle / last of 1..3 parameters). Yields (tkind, dkind, nparams, position)."""
    out = []
    for tk in type_kinds:
        for dk in default_kinds:
            for n, pos in ((1, 0), (2, 0), (2, 1), (3, 1), (3, 2)):
                out.append((tk, dk, n, pos))
    return out


def matrix_ir(r, tkind, dkind, n, pos, suffix_legal=True, with_return=False, name="Foo"):
    """One matrix interface: the probed parameter sits at `pos`; the others are plain ints with a
    default when they come after a defaulted probe (keeps the list signature-legal)."""
    names = r.sample(NAMES, n)
    params = OrderedDict()
    probe = make_param(r, tkind, dkind)
    probe_has_default = "default" in probe
    for i, nm in enumerate(names):
        if i == pos:
            params[nm] = probe
        else:
            k = r.choice(SCALARS)
            after = i > pos
            want_default = (after and probe_has_default) if suffix_legal else r.random() < 0.5
            params[nm] = make_param(r, k, {"int": "int", "float": "float", "str": "str", "bool": "bool"}[k]
                                    if want_default else "absent")
    ret = None
    if with_return:
        ret = OrderedDict([("return_type", make_param(r, r.choice(SCALARS), "absent"))])
    return make_ir(r, params, name=name, returns=ret)


def shape(ir):
    """value-free descriptor of an interface"""
    ps = [(type_kind_of(p.get("typ")), default_kind_of(p)) for p in ir["params"].values()]
    ret = None
    if ir.get("returns"):
        rp = ir["returns"]["return_type"]
        ret = (type_kind_of(rp.get("typ")), default_kind_of(rp))
    return {"n": len(ps), "params": ps, "returns": ret}


def defaults_form_suffix(ir):
    seen = False
    for p in ir["params"].values():
        if "default" in p:
            seen = True
        elif seen:
            return False
    return True
