"""Real-world corpus: the definitions and docstrings of the repository's own sources (package, tests and the
mocks the tests use - keras / torch / tensorflow style docstrings among them).

Generated inputs follow the harness' grammars; these follow nobody's: the corpus is the workload that no generator of
this harness had a say in. Items are addressed by index in a stable order (sorted paths, source order), so a witness
replays by (stream, idx) as everywhere else.
"""

import ast
import inspect
import os
import textwrap

from vcdd import REPO

_CACHE = {}


def py_files(max_bytes=None, tests=True):
    out = []
    for d, _, fs in os.walk(os.path.join(REPO, "cdd")):
        for f in sorted(fs):
            if f.endswith(".py"):
                p = os.path.join(d, f)
                if not tests and (os.sep + "tests" + os.sep) in p:
                    continue
                if max_bytes is None or os.path.getsize(p) <= max_bytes:
                    out.append(p)
    return sorted(out)


def _str_constants(tree):
    """string constants of a module that look like docstrings (the mocks keep theirs in variables)"""
    for node in ast.walk(tree):
        if isinstance(node, ast.Constant) and isinstance(node.value, str) and "\n" in node.value and (
                ":param" in node.value or "Args:" in node.value or "Parameters\n" in node.value or
                "Returns:" in node.value or ":return" in node.value) and not any(
                    t in node.value for t in ('"""', "'''", "def ", "class ", "import ")):  # (source text, not a docstring)
            yield node.value


def definitions():
    """[(relpath, qualname, kind, source segment, raw docstring or None)] for every def / class of the repository"""
    if "defs" in _CACHE:
        return _CACHE["defs"]
    out = []
    for path in py_files():
        try:
            with open(path) as f:
                src = f.read()
            tree = ast.parse(src)
        except Exception:
            continue
        rel = os.path.relpath(path, REPO)

        def walk(node, prefix):
            for child in ast.iter_child_nodes(node):
                if isinstance(child, (ast.FunctionDef, ast.AsyncFunctionDef, ast.ClassDef)):
                    q = prefix + child.name
                    # whole lines, dedented: parses on its own (decorators are left out)
                    seg = textwrap.dedent("\n".join(src.split("\n")[child.lineno - 1: child.end_lineno]) + "\n")
                    out.append((rel, q, type(child).__name__, seg, ast.get_docstring(child, clean=False)))
                    walk(child, q + ".")
                else:
                    walk(child, prefix)

        walk(tree, "")
    _CACHE["defs"] = out
    return out


def docstrings():
    """distinct docstring texts of the repository, each in the forms a parser may meet: raw and cleaned;
    [(origin, text)] in a stable order"""
    if "docs" in _CACHE:
        return _CACHE["docs"]
    seen, out = set(), []

    def add(origin, text):
        if text and text.strip() and text not in seen:
            seen.add(text)
            out.append((origin, text))

    for rel, q, kind, seg, doc in definitions():
        if doc:
            add("%s:%s" % (rel, q), inspect.cleandoc(doc))
            add("%s:%s:raw" % (rel, q), doc)
    for path in py_files():
        if (os.sep + "mocks" + os.sep) not in path:
            continue
        try:
            with open(path) as f:
                tree = ast.parse(f.read())
        except Exception:
            continue
        for n, text in enumerate(_str_constants(tree)):
            add("%s:const%d" % (os.path.relpath(path, REPO), n), text)
            add("%s:const%d:clean" % (os.path.relpath(path, REPO), n), inspect.cleandoc(text))
    _CACHE["docs"] = out
    return out
