"""Docstring generators: grammar-generated docstrings in three styles + a token-alphabet enumerator."""

from vcdd.gen import irgen

TAB = "    "

HEADER_WORDS = irgen.WORDS

TOKEN_ALPHABET = (
    "\n", "    ", " ", ":param ", ":type ", ":return:", ":rtype:", ":returns:", "Args:", "Returns:", "Raises:",
    "Parameters\n----------", "Returns\n-------", "Kwargs:", "Attributes:", "x", "y :", " int", "(int)", "```", "`", ":",
    "Defaults to ", "5", ".", "Optional[str]", "*args", "**kwargs", "-------", "word", ">>> f()", "Usage:", "", "'", '"',
)


def sentence(r, n=None, stop=None):
    n = n or r.randint(2, 7)
    s = " ".join(r.choice(irgen.vocab()) for _ in range(n))
    s = s[0].upper() + s[1:]
    if stop if stop is not None else r.random() < 0.5:
        s += "."
    return s


# words that open a section when followed by ':' or an underline - and ordinary English when they open a sentence
SECTION_WORDS = ("Returns", "Parameters", "Raises", "Args", "Return", "Yields", "Attributes", "Kwargs")


MIDLINE = ("and any extra kwargs: are forwarded untouched.", "with positional args: three of them.", "where ARGS: means all of them.",
           "and it returns: nothing of note.", "see parameters: below.", "it raises: never.")


def header(r, paragraphs=None, lead=None):
    """multi-paragraph header: summary + optional long description paragraphs; with `lead` about half of the lines
    start with one of those words (prose such as 'Returns the sum of the inputs')"""
    paragraphs = paragraphs if paragraphs is not None else r.randint(1, 3)
    paras = []
    for i in range(paragraphs):
        # (the summary itself may run over two lines)
        lines = [sentence(r) for _ in range((2 if r.random() < 0.3 else 1) if i == 0 else r.randint(1, 3))]
        if lead:
            lines = ["%s %s" % (r.choice(lead), l[0].lower() + l[1:]) if r.random() < 0.5 else l for l in lines]
            # the same words in another letter case, followed by a colon, in the middle of a sentence: prose, to every style
            lines = ["%s %s" % (l.rstrip("."), r.choice(MIDLINE)) if r.random() < 0.25 else l for l in lines]
        paras.append("\n".join(lines))
    return "\n\n".join(paras)


def footer(r, style, kind=None):
    kind = kind or r.choice(("notes", "examples", "doctest", "raises", "usage"))
    if kind == "notes":
        if style == "numpydoc":
            return "Notes\n-----\n%s\n%s" % (sentence(r), sentence(r))
        return "Note:\n%s%s" % (TAB if style == "google" else "", sentence(r))
    if kind == "examples":
        if style == "numpydoc":
            return "Examples\n--------\n>>> foo(1)\n2"
        return "Example:\n%s>>> foo(1)\n%s2" % ((TAB if style == "google" else "",) * 2)
    if kind == "doctest":
        return ">>> foo(5)\n6\n>>> foo(7)\n8"
    if kind == "raises":
        if style == "numpydoc":
            return "Raises\n------\nValueError\n%s%s" % (TAB, sentence(r))
        if style == "google":
            return "Raises:\n%sValueError: %s" % (TAB, sentence(r))
        return ":raises ValueError: %s" % sentence(r)
    return "Usage:\n%sfoo --help" % TAB


def default_clause(r, default):
    if default is Ellipsis:
        return ""
    rep = "```%s```" % (default,) if not isinstance(default, str) else '"%s"' % default
    if isinstance(default, str) and default.startswith("```"):
        rep = default
    return " Defaults to %s" % rep


def param_section(r, style, params, returns=None, types=True, multi_line=False):
    """params: list of (name, typ or None, doc, default|Ellipsis). Returns text without indentation."""
    out = []

    def doc_of(doc, default):
        d = doc.rstrip(".") + "." if default is not Ellipsis and doc else doc
        return (d + default_clause(r, default)).strip()

    if style == "rest":
        for name, typ, doc, default in params:
            d = doc_of(doc, default)
            if multi_line and len(d.split()) > 3:
                w = d.split()
                d = " ".join(w[:2]) + "\n" + TAB + " ".join(w[2:])
            out.append(":param %s: %s" % (name, d))
            if types and typ:
                out.append(":type %s: ```%s```" % (name, typ))
            out.append("")
        if returns:
            typ, doc = returns
            out.append(":return: %s" % doc)
            if types and typ:
                out.append(":rtype: ```%s```" % typ)
        return "\n".join(out).rstrip("\n")
    if style == "google":
        if params:
            out.append("Args:")
            for name, typ, doc, default in params:
                d = doc_of(doc, default)
                out.append("  %s%s: %s" % (name, " (%s)" % typ if types and typ else "", d))
        if returns:
            typ, doc = returns
            if out:
                out.append("")
            out.append("Returns:")
            if types and typ:
                out.append("  %s:" % typ)
                out.append("   %s" % doc)
            else:
                out.append("  %s" % doc)
        return "\n".join(out)
    if style == "numpydoc":
        if params:
            out += ["Parameters", "----------"]
            for name, typ, doc, default in params:
                out.append("%s : %s" % (name, typ) if types and typ else name)
                out.append("%s%s" % (TAB, doc_of(doc, default)))
        if returns:
            typ, doc = returns
            if out:
                out.append("")
            out += ["Returns", "-------"]
            out.append(typ if types and typ else "result")
            w = doc.split()
            if multi_line and len(w) > 3:
                # a return description that runs over two or three lines
                k = max(1, len(w) // (3 if len(w) > 6 else 2))
                for j in range(0, len(w), k):
                    out.append("%s%s" % (TAB, " ".join(w[j:j + k])))
            else:
                out.append("%s%s" % (TAB, doc))
        return "\n".join(out)
    raise ValueError(style)


def indent_text(text, level):
    if not level:
        return text
    pre = TAB * level
    return "\n".join(pre + l if l.strip() else l for l in text.split("\n"))


def rand_params(r, n=None, star=False, types=True, defaults=True, trigger=False):
    n = r.randint(0, 5) if n is None else n
    names = r.sample(irgen.NAMES, n)
    out = []
    for nm in names:
        typ = irgen.make_type(r, r.choice(("int", "float", "str", "bool", "optional", "literal", "list", "union",
                                           "dotted"))) if types else None
        doc = irgen.rand_doc(r, trigger=trigger, stop=False)
        default = Ellipsis
        if defaults and typ and r.random() < 0.4:
            dk = [k for k in irgen.admissible_default_kinds(typ) if k not in ("absent", "none", "code", "emptystr",
                                                                               "strdot")]
            if dk:
                v = irgen.make_default(r, typ, r.choice(dk))
                if v is not None:
                    default = v
        out.append((nm, typ, doc, default))
    if star:
        # variadic entries are not always called args / kwargs
        va, kw = r.choice((("*args", "**kwargs"), ("*args", "**kwargs"), ("*paths", "**options"), ("*a", "**kw"),
                           ("*items", "**extra_kwargs")))
        if r.random() < 0.5:
            out.append((va, None, "positional extras", Ellipsis))
        out.append((kw, "dict" if types else None, "keyword extras", Ellipsis))
    return out


def compose(r, style, indent=0, paragraphs=None, with_footer=None, params=None, returns=Ellipsis, types=True,
            lead_nl=True, multi_line=False, header_lead=None):
    """-> (docstring, parts) where parts = {"header","section","footer","params","returns"}"""
    if params is None:
        params = rand_params(r, types=types)
    if returns is Ellipsis:
        returns = (irgen.make_type(r, r.choice(("int", "str", "bool", "optional"))), irgen.rand_doc(r, stop=False)) \
            if r.random() < 0.6 else None
    h = header(r, paragraphs, lead=header_lead)
    sec = param_section(r, style, params, returns, types=types, multi_line=multi_line)
    f = footer(r, style) if (with_footer if with_footer is not None else r.random() < 0.4) else ""
    blocks = [b for b in (h, sec, f) if b]
    text = "\n\n".join(blocks)
    text = indent_text(text, indent)
    if lead_nl:
        text = "\n" + text + "\n" + TAB * indent
    return text, {"header": h, "section": sec, "footer": f, "params": params, "returns": returns, "style": style,
                  "indent": indent}


def token_string(r, n):
    return "".join(r.choice(TOKEN_ALPHABET) for _ in range(n))


def token_decode(i, alphabet=TOKEN_ALPHABET):
    n = len(alphabet)
    k = 0
    while i >= n ** k:
        i -= n ** k
        k += 1
    seq = []
    for _ in range(k):
        seq.append(alphabet[i % n])
        i //= n
    return "".join(reversed(seq))
