"""Program generator: small Python modules built from functions, async functions, methods,
nested definitions and classes with rich signatures, docstrings in any style or none, comments
and simple bodies. Everything is generated from templates independent of the code under test."""

import random

from vcdd.gen import docgen, irgen

TAB = "    "
STYLES = ("rest", "google", "numpydoc")
SIMPLE_TYPES = ("int", "float", "str", "bool", "Optional[int]", "Optional[str]", "List[int]", "List[str]",
                "Literal['a', 'b']", "Union[int, str]", "dict", "object")
DEFAULTS = {"int": ("5", "-3", "0", "42"), "float": ("2.5", "-0.5", "1e-07"), "str": ("'hello'", "\"x y\"", "''"),
            "bool": ("True", "False"), "Optional[int]": ("None", "7"), "Optional[str]": ("None", "'s'"),
            "List[int]": ("None", "()"), "List[str]": ("None",), "Literal['a', 'b']": ("'a'", "'b'"),
            "Union[int, str]": ("1", "'u'"), "dict": ("None",), "object": ("None", "object()")}


class Names(object):
    def __init__(self, r):
        self.r, self.used = r, set()

    def fresh(self, pool=irgen.NAMES, prefix=""):
        for _ in range(50):
            n = prefix + self.r.choice(pool)
            if n not in self.used:
                self.used.add(n)
                return n
        n = "%sv%d" % (prefix, len(self.used))
        self.used.add(n)
        return n


def gen_signature(r, first=None, allow_posonly=True):
    """-> (text of the parameter list possibly multi-line, [(name, typ|None, default|None, kind)])"""
    n = r.randint(0, 5)
    names = r.sample(irgen.NAMES, n)
    k_pos = r.randint(0, n)
    pos, kwo = names[:k_pos], names[k_pos:]
    params, parts = [], []
    if first:
        parts.append(first)
    posonly_at = r.randint(1, len(pos)) if allow_posonly and pos and r.random() < 0.15 else 0
    seen_default = False
    for i, nm in enumerate(pos):
        typ = r.choice(SIMPLE_TYPES) if r.random() < 0.6 else None
        d = None
        if seen_default or r.random() < 0.45:
            d = r.choice(DEFAULTS[typ] if typ else ("5", "None", "'z'", "-1", "2.5", "True"))
            seen_default = True
        parts.append("%s%s%s" % (nm, ": %s" % typ if typ else "", (" = %s" if typ else "=%s") % d if d is not None else ""))
        params.append((nm, typ, d, "pos"))
        if posonly_at and i + 1 == posonly_at:
            parts.append("/")
    vararg = r.random() < 0.25
    if vararg:
        parts.append("*args")
        params.append(("args", None, None, "vararg"))
    elif kwo:
        parts.append("*")
    if not vararg and not kwo:
        pass
    for nm in kwo:
        typ = r.choice(SIMPLE_TYPES) if r.random() < 0.6 else None
        d = r.choice(DEFAULTS[typ] if typ else ("5", "None", "'z'")) if r.random() < 0.5 else None
        parts.append("%s%s%s" % (nm, ": %s" % typ if typ else "", (" = %s" if typ else "=%s") % d if d is not None else ""))
        params.append((nm, typ, d, "kwonly"))
    if r.random() < 0.25:
        parts.append("**kwargs")
        params.append(("kwargs", None, None, "kwarg"))
    return parts, params


HEADER_COMMENTS = [0.0]  # probability of a comment on / right after a definition header (see `header_comments`)


class header_comments(object):
    """context manager: generate definition headers that carry a trailing comment / are followed by a comment line"""

    def __init__(self, p):
        self.p = p

    def __enter__(self):
        self.old, HEADER_COMMENTS[0] = HEADER_COMMENTS[0], self.p

    def __exit__(self, *a):
        HEADER_COMMENTS[0] = self.old


def render_header(r, kw, name, parts, ret, indent):
    pre = TAB * indent
    one = "%s%s %s(%s)%s:" % (pre, kw, name, ", ".join(parts), " -> %s" % ret if ret else "")
    if parts and (r.random() < 0.25 or len(one) > 100):
        inner = (",\n").join("%s%s%s" % (pre, TAB, p) for p in parts)
        trailing = "," if parts[-1] not in ("/",) and not parts[-1].startswith("**") and r.random() < 0.5 else ""
        one = "%s%s %s(\n%s%s\n%s)%s:" % (pre, kw, name, inner, trailing, pre, " -> %s" % ret if ret else "")
    if r.random() < HEADER_COMMENTS[0]:
        # a comment on the header line itself, and/or a comment line between the header and the docstring / body
        k = r.random()
        if k < 0.6:
            one += "  # %s" % irgen.rand_doc(r, 2, stop=False)
        if k > 0.4:
            one += "\n%s%s# %s" % (pre, TAB, irgen.rand_doc(r, 3, stop=False))
    return one


QUOTE_PROSE = [0.08]  # share of docstrings whose prose talks about quoting (see gen_docstring)


class quote_prose(object):
    """context manager: raise that share (a directed stream)"""

    def __init__(self, p):
        self.p = p

    def __enter__(self):
        self.old, QUOTE_PROSE[0] = QUOTE_PROSE[0], self.p

    def __exit__(self, *a):
        QUOTE_PROSE[0] = self.old


PROSE_TYPES = ("list of int", "sequence of str", "int or None", "``int``", "array-like", "dict, optional", "str, default 'x'",
               "callable -> bool", "{'a', 'b'} or None", "tuple of (int, str)", "file-like object", "int > 0")


def gen_docstring(r, params, ret, indent, style=None, quote='"""'):
    style = style or r.choice(STYLES + ("none", "plain", "plain", "empty"))
    if style == "none":
        return None, style
    if style == "empty":  # boundary docstrings: empty, blank, whitespace-only multi-line
        return "%s%s%s%s" % (TAB * indent, quote, r.choice(("", " ", "\n" + TAB * indent)), quote), style
    if style == "plain":
        text = docgen.header(r, r.randint(1, 2))
        if r.random() < 0.5:
            return "%s%s%s%s" % (TAB * indent, quote, text.split("\n")[0], quote), style
        return "%s%s\n%s\n%s%s" % (TAB * indent, quote, docgen.indent_text(text, indent), TAB * indent, quote), style
    documented = [p for p in params if p[3] in ("pos", "kwonly") and r.random() < 0.8]
    with_types = r.random() < 0.6
    dps = []
    # (a documented type is prose as often as it is an expression: "list of int", "int, optional", "array-like")
    prose_types = r.random() < 0.12
    for nm, typ, d, kind in documented:
        t = typ if (with_types and typ) else (r.choice(("int", "str", "bool")) if with_types and r.random() < 0.3 else None)
        if prose_types and with_types and not typ and r.random() < 0.6:
            t = r.choice(PROSE_TYPES)
        dps.append((nm, t, irgen.rand_doc(r, stop=False), Ellipsis))
    rt = None
    if ret and ret != "None" and r.random() < 0.8:
        rt = (ret if with_types else None, irgen.rand_doc(r, stop=False))
    text, _ = docgen.compose(r, style, indent=indent, params=dps, returns=rt, types=with_types,
                             with_footer=r.random() < 0.15, paragraphs=r.randint(1, 2))
    rq = random.Random(r.random())
    if rq.random() < QUOTE_PROSE[0]:
        # prose that talks about quoting: a line that ends with (or holds) the *other* triple quote, or a lone quote character
        other = "'''" if quote == '"""' else '"""'
        lines = text.split("\n")
        cand = [i for i, l in enumerate(lines) if l.strip() and i > 0 and not set(l.strip()) <= set("-")]
        if cand:
            i = rq.choice(cand)
            lines[i] += rq.choice((" one of \", ' or %s", " wrapped in %s", " %s like so %s here", " (a ' mark)")).replace("%s", other)
            text = "\n".join(lines)
    return "%s%s%s%s" % (TAB * indent, quote, text, quote), style


def gen_body(r, indent, names, depth=0, ret=None):
    pre = TAB * indent
    out = []
    for _ in range(r.randint(1, 4)):
        k = r.choice(("assign", "assign_c", "if", "for", "with", "comment", "expr", "annassign", "nested") if depth < 2
                     else ("assign", "comment", "expr"))
        v = names.fresh(prefix="loc_")
        if k == "assign":
            out.append("%s%s = %s" % (pre, v, r.choice(("1", "'s'", "[1, 2]", "{'k': 2}", "(a for a in ())", "-7"))))
        elif k == "assign_c":
            out.append("%s%s = %s  # %s" % (pre, v, r.randint(0, 99), irgen.rand_doc(r, 2, stop=False)))
        elif k == "annassign":
            out.append("%s%s: %s = %s" % (pre, v, r.choice(("int", "str")), r.choice(("3", "'t'"))))
        elif k == "if":
            out.append("%sif %s:\n%s%s%s = 2\n%selse:\n%s%spass" % (pre, r.choice(("True", "1 < 2", "not None")), pre, TAB,
                                                                  v, pre, pre, TAB))
        elif k == "for":
            out.append("%sfor %s in range(3):\n%s%sprint(%s)" % (pre, v, pre, TAB, v))
        elif k == "with":
            out.append("%swith open(__file__) as %s:\n%s%spass" % (pre, v, pre, TAB))
        elif k == "comment":
            out.append("%s# %s" % (pre, irgen.rand_doc(r, 3, stop=False)))
        elif k == "expr":
            out.append("%sprint(%r)" % (pre, irgen.rand_doc(r, 2, stop=False)))
        elif k == "nested":
            out.append(gen_function(r, indent, names, depth + 1))
        if r.random() < 0.08:
            # a blank line inside the body: empty, or still carrying indentation (spaces / a tab) as editors leave them
            out.append(r.choice(("", pre, pre + TAB, pre[:-2] if len(pre) > 2 else " ", pre + "\t")))
    if ret:
        out.append("%sreturn %s" % (pre, {"int": "1", "str": "'r'", "bool": "True", "None": "None"}.get(ret, "None")))
    elif all(l.lstrip().startswith("#") or not l.strip() for l in out):
        out.append("%spass" % pre)
    return "\n".join(out)


def gen_function(r, indent, names, depth=0, method=None, style=None):
    """method in (None, 'self', 'cls', 'static')"""
    pre = TAB * indent
    kw = "async def" if r.random() < 0.2 else "def"
    # methods and nested helpers may share a name with a definition elsewhere in the module (`__init__` / `run`
    # in two classes, equally named nested helpers): legal Python, and where name-based lookups go wrong
    if (method or depth > 0) and r.random() < 0.35:
        name = r.choice(("__init__", "run", "helper", "fn_shared")) if method != "static" else r.choice(("run", "helper"))
    else:
        name = names.fresh(prefix="fn_")
    parts, params = gen_signature(r, first={"self": "self", "cls": "cls"}.get(method))
    ret = r.choice(("int", "str", "bool", "None", "Optional[int]", "List[str]")) if r.random() < 0.5 else None
    lines = []
    if r.random() < 0.2:
        lines.append("%s# %s" % (pre, irgen.rand_doc(r, 3, stop=False)))
    decos = []
    if method == "cls":
        decos.append("@classmethod")
    elif method == "static":
        decos.append("@staticmethod")
    if r.random() < 0.2:
        decos.insert(0, r.choice(("@deco", "@deco_with(1, 'x')", "@deco_with(\n%s    1,\n%s    key='v',\n%s)" % (pre, pre, pre))))
    for i, d in enumerate(decos):
        lines.append(pre + d)
        if i == 0 and len(decos) > 1 and r.random() < 0.2:
            lines.append("%s# between decorators" % pre)
    lines.append(render_header(r, kw, name, parts, ret, indent))
    doc, st = gen_docstring(r, params, ret, indent + 1, style=style, quote=r.choice(('"""', '"""', "'''")))
    if doc:
        lines.append(doc)
    lines.append(gen_body(r, indent + 1, names, depth, ret if ret in ("int", "str", "bool", "None") else None))
    return "\n".join(lines)


def gen_class(r, indent, names, depth=0, style=None):
    pre = TAB * indent
    name = names.fresh(pool=("Alpha", "Beta", "Gamma", "Delta", "Conf", "Model", "Node", "Edge"), prefix="")
    bases = r.choice(("", "(object)", "(Base)", "(Base, Mixin)", "(Base, metaclass=Meta)"))
    lines = []
    if r.random() < 0.15:
        lines.append("%s@deco" % pre)
    lines.append("%sclass %s%s:" % (pre, name, bases))
    attrs = []
    for _ in range(r.randint(0, 4)):
        an = names.fresh(prefix="attr_")
        typ = r.choice(SIMPLE_TYPES)
        val = r.choice(DEFAULTS[typ]) if r.random() < 0.7 else None
        attrs.append((an, typ, val))
    st = style or r.choice(STYLES + ("none", "plain"))
    if st != "none":
        if st == "plain":
            lines.append('%s%s"""%s"""' % (pre, TAB, docgen.sentence(r)))
        else:
            dps = [(an, typ if r.random() < 0.5 else None, irgen.rand_doc(r, stop=False), Ellipsis)
                   for an, typ, val in attrs if r.random() < 0.8]
            text, _ = docgen.compose(r, st, indent=indent + 1, params=dps, returns=None, with_footer=False,
                                     paragraphs=r.randint(1, 2))
            if st == "rest":
                text = text.replace(":param ", ":cvar ")
            lines.append('%s%s"""%s"""' % (pre, TAB, text))
    for an, typ, val in attrs:
        c = "  # %s" % irgen.rand_doc(r, 2, stop=False) if r.random() < 0.2 else ""
        if r.random() < 0.85:
            lines.append("%s%s%s: %s%s%s" % (pre, TAB, an, typ, " = %s" % val if val is not None else "", c))
        else:
            lines.append("%s%s%s = %s%s" % (pre, TAB, an, val if val is not None else "None", c))
    for _ in range(r.randint(0, 3)):
        lines.append("")
        lines.append(gen_function(r, indent + 1, names, depth + 1, method=r.choice(("self", "self", "cls", "static")),
                                  style=style))
    if depth < 1 and r.random() < 0.15:
        lines.append("")
        lines.append(gen_class(r, indent + 1, names, depth + 1, style=style))
    if len(lines) == 1 or (not attrs and st == "none" and len(lines) < 3):
        lines.append("%s%spass" % (pre, TAB))
    return "\n".join(lines)


PRELUDE = '''from typing import List, Literal, Optional, Union


def deco(f):
    return f


def deco_with(*a, **k):
    return deco


class Base:
    pass


class Mixin:
    pass


class Meta(type):
    pass
'''


def gen_module(r, style=None, n_items=None, prelude=True):
    if r.random() < 0.35:
        # docstrings and comments whose prose uses Python keywords as ordinary words
        with irgen.extra_words(irgen.CODE_WORDS):
            return _gen_module(r, style, n_items, prelude)
    return _gen_module(r, style, n_items, prelude)


def _gen_module(r, style=None, n_items=None, prelude=True):
    names = Names(r)
    items = []
    if r.random() < 0.4:
        items.append('"""%s"""' % docgen.sentence(r))
    if r.random() < 0.3:
        items.append("# -*- coding: utf-8 -*-\n# %s" % irgen.rand_doc(r, 3, stop=False))
    if prelude:
        items.append(PRELUDE.rstrip("\n"))
    for _ in range(n_items or r.randint(1, 4)):
        k = r.choice(("function", "function", "class", "class", "const", "comment"))
        if k == "function":
            items.append(gen_function(r, 0, names, style=style))
        elif k == "class":
            items.append(gen_class(r, 0, names, style=style))
        elif k == "const":
            items.append("%s = %s  # %s" % (names.fresh(prefix="CONST_").upper(), r.randint(0, 9), irgen.rand_doc(r, 2, stop=False)))
        else:
            items.append("# %s\n# %s" % (irgen.rand_doc(r, 3, stop=False), irgen.rand_doc(r, 2, stop=False)))
    sep = "\n\n\n"
    src = sep.join(items) + "\n"
    if r.random() < 0.1:
        src = src.rstrip("\n")  # no trailing newline
    return src


def gen_prose_typed_module(r):
    """plain top-level functions whose docstrings give types as people write them ("list of int", "str or None") for
    parameters / results the signature does not annotate"""
    out = []
    for k in range(r.randint(1, 3)):
        names = r.sample(irgen.NAMES[:20], r.randint(1, 4))
        sig, dps = [], []
        seen_default = False
        for nm in names:
            d = r.choice(("1", "'z'", "None", "2.5") if seen_default else (None, None, "1", "'z'", "None", "2.5"))
            seen_default = d is not None
            sig.append(nm if d is None else "%s=%s" % (nm, d))
            t = r.choice(PROSE_TYPES) if r.random() < 0.6 else r.choice(("int", "str", "List[int]", None))
            dps.append((nm, t, irgen.rand_doc(r, stop=False), Ellipsis))
        rt = (r.choice(PROSE_TYPES + ("str",)), irgen.rand_doc(r, stop=False)) if r.random() < 0.7 else None
        text, _ = docgen.compose(r, r.choice(STYLES), indent=1, params=dps, returns=rt, types=True, with_footer=False,
                                 paragraphs=1)
        out.append('def fn_%d(%s):\n    """%s"""\n    return %s\n' % (k, ", ".join(sig), text, r.choice(("None", names[0], "[%s]" % names[0]))))
    return "\n\n".join(out)
