"""Runtime-monitoring harness for offscale/cdd-python (see /verif/DESIGN.md)."""

import os
import sys

VERIF_ROOT = os.path.dirname(os.path.dirname(os.path.abspath(__file__)))
REPO = os.environ.get("VCDD_REPO", "/repo")
DEPS = os.path.join(VERIF_ROOT, ".deps")

# third-party helper packages (icontract, jsonschema, ...) are appended *after* the
# interpreter's own site-packages, so they never shadow what the repository runs with.
if os.path.isdir(DEPS) and DEPS not in sys.path:
    sys.path.append(DEPS)
