"""Run driver shared by all property checks.

A property module provides

    PID = "C01"
    def streams(ctx) -> [(stream_name, number_of_cases), ...]
    def run_case(ctx, P, stream, idx) -> None      # records into the Partial `P`
    RULE = "how cases are generated and what makes one distinct / non-trivial"
    REQUIRED_MONITORS = ("name", ...)               # zero evaluations => inconclusive
    ASSUMPTIONS = [...]

`main(module)` shards the (stream, idx) space over subprocesses (one python process per
shard, each with a wall-clock watchdog whose firing is *inconclusive*, never a verdict),
merges their partial results, classifies deviations against /verif/known_findings.json,
writes /verif/evidence/<id>.json and exits 0 (held on what was observed), 1 (violation,
with a `VIOLATION property=<id> replay=<path>` line) or 2 (inconclusive).
"""

import argparse
import hashlib
import json
import os
import random
import subprocess
import sys
import time
import traceback
from collections import Counter

from vcdd import REPO, VERIF_ROOT

MAX_SAMPLES = 6
MAX_WITNESS_PER_KEY = 3


def jdefault(o):
    """json fallback: AST nodes, sets, tuples, anything -> readable text"""
    import ast

    if isinstance(o, ast.AST):
        try:
            return "<ast %s>" % ast.unparse(o)
        except Exception:
            return "<ast %s>" % ast.dump(o)
    if isinstance(o, (set, frozenset)):
        return sorted(map(repr, o))
    if isinstance(o, bytes):
        return o.decode("utf8", "replace")
    return repr(o)


def jdump(o, **kw):
    return json.dumps(o, default=jdefault, **kw)


def digest(o):
    return hashlib.sha1(jdump(o, sort_keys=True).encode()).hexdigest()[:16]


class Ctx(object):
    """What a property module needs to know about this run."""

    def __init__(self, pid, tier, seed, shard_i=0, shard_n=1, deadline=None):
        self.pid, self.tier, self.seed = pid, tier, seed
        self.shard_i, self.shard_n = shard_i, shard_n
        self.deadline = deadline
        self.thorough = tier == "thorough"

    def rng(self, *tag):
        """deterministic generator addressed by (seed, tag...) — never by process state"""
        return random.Random("%s|%s|%s" % (self.pid, self.seed, "|".join(map(str, tag))))

    def scale(self, quick, thorough):
        return thorough if self.thorough else quick

    def out_of_time(self):
        return self.deadline is not None and time.time() > self.deadline


class Partial(object):
    """Observations of one shard; merged by the parent."""

    def __init__(self):
        self.counters = Counter()  # free-form counts (calls, rejected, ...)
        self.monitors = Counter()  # monitor name -> number of evaluations
        self.classes = Counter()  # input class -> number of cases
        self.distinct = set()  # digests of distinct non-trivial cases
        self.samples = []
        self.deviations = {}  # key -> {"count": n, "what": str, "witnesses": [..]}
        self.evaluations = 0
        self.notes = {}
        self.errors = []  # harness-level problems (make the run inconclusive)
        self.truncated = 0
        self.bulk_distinct = 0  # cases distinct *by construction* (enumerations), counted not hashed

    def bulk(self, n, nontrivial_n, klass=None, sample=None):
        """n enumerated cases of which nontrivial_n are non-trivial; distinct by construction"""
        self.evaluations += n
        self.bulk_distinct += nontrivial_n
        if klass is not None:
            self.classes[klass] += n
        if sample is not None and len(self.samples) < MAX_SAMPLES:
            self.samples.append(sample)

    # -- recording ------------------------------------------------------------
    def case(self, descriptor, nontrivial=True, klass=None, sample=None):
        """one generated case; `descriptor` identifies it for distinctness"""
        self.evaluations += 1
        if nontrivial:
            self.distinct.add(digest(descriptor))
        if klass is not None:
            self.classes[klass] += 1
        if len(self.samples) < MAX_SAMPLES:
            self.samples.append(descriptor if sample is None else sample)

    def monitor(self, name, n=1):
        self.monitors[name] += n

    def count(self, name, n=1):
        self.counters[name] += n

    def deviation(self, key, what, witness):
        d = self.deviations.setdefault(key, {"count": 0, "what": what, "witnesses": []})
        d["count"] += 1
        if len(d["witnesses"]) < MAX_WITNESS_PER_KEY:
            d["witnesses"].append(witness)

    def error(self, text):
        if len(self.errors) < 20:
            self.errors.append(text)

    # -- (de)serialisation ----------------------------------------------------
    def to_json(self):
        return jdump(
            {
                "counters": self.counters,
                "monitors": self.monitors,
                "classes": self.classes,
                "distinct": sorted(self.distinct),
                "samples": self.samples,
                "deviations": self.deviations,
                "evaluations": self.evaluations,
                "notes": self.notes,
                "errors": self.errors,
                "truncated": self.truncated,
                "bulk_distinct": self.bulk_distinct,
            }
        )

    def merge_json(self, text):
        d = json.loads(text)
        self.counters.update(d["counters"])
        self.monitors.update(d["monitors"])
        self.classes.update(d["classes"])
        self.distinct.update(d["distinct"])
        for s in d["samples"]:
            if len(self.samples) < MAX_SAMPLES:
                self.samples.append(s)
        for k, v in d["deviations"].items():
            mine = self.deviations.setdefault(k, {"count": 0, "what": v["what"], "witnesses": []})
            mine["count"] += v["count"]
            for w in v["witnesses"]:
                if len(mine["witnesses"]) < MAX_WITNESS_PER_KEY:
                    mine["witnesses"].append(w)
        self.evaluations += d["evaluations"]
        for k, v in d["notes"].items():
            if isinstance(v, (int, float)) and isinstance(self.notes.get(k), (int, float)):
                self.notes[k] = max(self.notes[k], v)
            elif isinstance(v, list) and isinstance(self.notes.get(k), list):
                self.notes[k] = (self.notes[k] + v)[:200]
            elif isinstance(v, dict) and isinstance(self.notes.get(k), dict):
                self.notes[k].update(v)
            else:
                self.notes.setdefault(k, v)
        self.errors.extend(d["errors"])
        self.truncated += d["truncated"]
        self.bulk_distinct += d.get("bulk_distinct", 0)


# ------------------------------------------------------------------------------------------


def load_findings(pid):
    path = os.path.join(VERIF_ROOT, "known_findings.json")
    with open(path) as f:
        data = json.load(f)
    open_, fixed = {}, {}
    for e in data["findings"]:
        if pid not in e["properties"]:
            continue
        (open_ if e["status"] == "open" else fixed)[e["key"]] = e
    return open_, fixed


def match_finding(key, open_findings):
    """A deviation key is `mechanism` or `mechanism|detail`; findings list mechanisms."""
    if key in open_findings:
        return open_findings[key]
    head = key.split("|", 1)[0]
    return open_findings.get(head)


def all_units(module, ctx):
    units = []
    for stream, n in module.streams(ctx):
        units.extend((stream, i) for i in range(n))
    return units


def run_shard(module, ctx, out_path):
    P = Partial()
    if hasattr(module, "setup_shard"):
        module.setup_shard(ctx, P)
    units = all_units(module, ctx)
    slow = []
    for n, (stream, idx) in enumerate(units):
        if n % ctx.shard_n != ctx.shard_i:
            continue
        if ctx.out_of_time():
            P.truncated += 1
            continue
        t_unit = time.time()
        try:
            module.run_case(ctx, P, stream, idx)
        except KeyboardInterrupt:
            raise
        except BaseException as e:  # harness bug or unexpected state: never a verdict
            P.error("%s[%d]: %s: %s\n%s" % (stream, idx, type(e).__name__, e, traceback.format_exc()[-1500:]))
        slow.append((time.time() - t_unit, stream, idx))
        if len(slow) > 200:
            slow = sorted(slow, reverse=True)[:3]
    if hasattr(module, "finish_shard"):
        module.finish_shard(ctx, P)
    P.notes["slowest_units"] = [[round(s_, 2), st, ix] for s_, st, ix in sorted(slow, reverse=True)[:3]]
    with open(out_path, "w") as f:
        f.write(P.to_json())


def main(module):
    ap = argparse.ArgumentParser(prog="check " + module.PID)
    ap.add_argument("--tier", default=os.environ.get("VERIF_TIER") or "quick", choices=("quick", "thorough"))
    ap.add_argument("--shard", default=None, help="internal: i/n")
    ap.add_argument("--out", default=None, help="internal: shard result file")
    ap.add_argument("--replay", default=None)
    ap.add_argument("--jobs", type=int, default=int(os.environ.get("VERIF_JOBS", "0")) or min(16, os.cpu_count() or 4))
    ap.add_argument("--deadline", type=float, default=None)
    a = ap.parse_args()
    if os.environ.get("VERIF_TIER") in ("quick", "thorough"):
        a.tier = os.environ["VERIF_TIER"]
    seed = int(os.environ.get("VERIF_SEED", "0") or 0)
    pid = module.PID

    if a.shard:  # ------------------------------------------------ child
        i, n = map(int, a.shard.split("/"))
        ctx = Ctx(pid, a.tier, seed, i, n, a.deadline)
        run_shard(module, ctx, a.out)
        return 0

    t0 = time.time()
    ctx = Ctx(pid, a.tier, seed)
    P = Partial()

    if a.replay:  # ------------------------------------------------ replay one witness
        with open(a.replay) as f:
            rep = json.load(f)
        ctx = Ctx(pid, rep.get("tier", a.tier), int(rep.get("seed", seed)))
        if hasattr(module, "setup_shard"):
            module.setup_shard(ctx, P)
        module.run_case(ctx, P, rep["stream"], rep["idx"])
        if hasattr(module, "finish_shard"):
            module.finish_shard(ctx, P)
        open_f, _ = load_findings(pid)
        bad = [k for k in P.deviations if not match_finding(k, open_f)]
        print(jdump(P.deviations, indent=1))
        for k in bad:
            print("VIOLATION property=%s replay=%s" % (pid, a.replay))
            break
        return 1 if bad else 0

    # ---------------------------------------------------------------- parent
    budget = getattr(module, "BUDGET_S", {"quick": 240, "thorough": 3000})[a.tier]
    serial = getattr(module, "SERIAL", False)
    jobs = 1 if serial else max(1, a.jobs)
    scratch = os.path.join(VERIF_ROOT, ".scratch")
    os.makedirs(scratch, exist_ok=True)
    procs = []
    env = dict(os.environ)
    env["PYTHONPATH"] = "%s:%s" % (REPO, VERIF_ROOT)
    env.setdefault("PYTHONHASHSEED", "0")
    env["PYTHONDONTWRITEBYTECODE"] = "1"
    env["VERIF_SEED"] = str(seed)
    deadline = time.time() + budget
    for i in range(jobs):
        out = os.path.join(scratch, "%s-%d-%d-%d.json" % (pid, os.getpid(), seed, i))
        cmd = [sys.executable, "-m", "vcdd.props." + pid.lower(), "--tier", a.tier, "--shard", "%d/%d" % (i, jobs),
               "--out", out, "--deadline", str(deadline)]
        # shard output goes to a file, never to a pipe: the code under test prints (doctrans deltas, parser
        # warnings) and a full pipe would block a shard until the parent gets round to reading it
        logf = open(out + ".log", "wb")
        procs.append((i, out, subprocess.Popen(cmd, env=env, cwd=VERIF_ROOT, stdout=logf, stderr=subprocess.STDOUT),
                      logf))
    inconclusive = []
    hard_stop = deadline + getattr(module, "GRACE_S", 120)
    for i, out, pr, logf in procs:
        try:
            pr.wait(timeout=max(1, hard_stop - time.time()))
        except subprocess.TimeoutExpired:
            pr.kill()
            pr.wait()
            inconclusive.append("shard %d exceeded the wall-clock watchdog" % i)
        logf.close()
        if pr.returncode not in (0, None) and not inconclusive:
            with open(out + ".log", "rb") as lf:
                lf.seek(max(0, os.path.getsize(out + ".log") - 800))
                tail = lf.read().decode("utf8", "replace")
            inconclusive.append("shard %d exited %s: %s" % (i, pr.returncode, tail))
        if os.path.exists(out + ".log"):
            os.remove(out + ".log")
        if os.path.exists(out):
            with open(out) as f:
                P.merge_json(f.read())
            os.remove(out)
    return conclude(module, ctx, P, inconclusive, t0)


def say(*a):
    try:
        print(*a)
        sys.stdout.flush()
    except BrokenPipeError:
        pass


def conclude(module, ctx, P, inconclusive, t0):
    pid = module.PID
    open_f, fixed_f = load_findings(pid)
    known_seen, violations = {}, {}
    for key, dev in sorted(P.deviations.items()):
        f = match_finding(key, open_f)
        if f is not None:
            e = known_seen.setdefault(f["key"], {"count": 0, "what": f["what"], "keys": []})
            e["count"] += dev["count"]
            e["keys"].append(key)
        else:
            violations[key] = dev

    for name in getattr(module, "REQUIRED_MONITORS", ()):
        if P.monitors.get(name, 0) == 0:
            inconclusive.append("monitor %s never evaluated" % name)
    if P.errors:
        inconclusive.append("%d harness error(s): %s" % (len(P.errors), P.errors[0][:600]))
    min_cases = getattr(module, "MIN_DISTINCT", 2)
    n_distinct = len(P.distinct) + P.bulk_distinct
    if n_distinct < min_cases:
        inconclusive.append("only %d distinct non-trivial cases (< %d)" % (n_distinct, min_cases))

    replay_dir = os.path.join(VERIF_ROOT, "replays")
    replay_paths = []
    if os.path.isdir(replay_dir):  # replays of an earlier run of this property/seed are stale
        for f in os.listdir(replay_dir):
            if f.startswith("%s-%d-" % (pid, ctx.seed)):
                os.remove(os.path.join(replay_dir, f))
    if violations:
        os.makedirs(replay_dir, exist_ok=True)
        for n, (key, dev) in enumerate(sorted(violations.items())):
            w = dev["witnesses"][0] if dev["witnesses"] else {}
            rp = os.path.join(replay_dir, "%s-%d-%d.json" % (pid, ctx.seed, n))
            with open(rp, "w") as f:
                f.write(jdump({"property": pid, "key": key, "what": dev["what"], "count": dev["count"],
                               "tier": ctx.tier, "seed": ctx.seed,
                               "stream": w.get("stream") if isinstance(w, dict) else None,
                               "idx": w.get("idx") if isinstance(w, dict) else None,
                               "witness": w}, indent=1))
            replay_paths.append((key, rp, dev))

    if isinstance(P.notes.get("slowest_units"), list):
        P.notes["slowest_units"] = sorted(P.notes["slowest_units"], reverse=True)[:5]
    coverage = {
        "evaluations": P.evaluations,
        "distinct_nontrivial": n_distinct,
        "rule": module.RULE,
        "samples": P.samples[:MAX_SAMPLES],
        "monitor_evaluations": dict(P.monitors),
        "input_classes": dict(P.classes),
        "counters": dict(P.counters),
        "known_findings_observed": {k: {"count": v["count"], "what": v["what"], "deviation_keys": len(v["keys"]),
                                        "deviation_keys_sample": sorted(v["keys"])[:60],
                                        "deviation_shapes": sorted(set(k.split("|", 1)[-1].split(",")[0] for k in v["keys"]))[:80]}
                                    for k, v in known_seen.items()},
        "violating_keys": {k: {"count": v["count"], "what": v["what"]} for k, v in violations.items()},
        "truncated_cases": P.truncated,
        "inconclusive": inconclusive,
        "notes": P.notes,
    }
    if getattr(module, "EXHAUSTIVE", None):
        ex = module.EXHAUSTIVE(ctx) if callable(module.EXHAUSTIVE) else module.EXHAUSTIVE
        if ex:
            coverage["exhaustive_part"] = ex
    ev = {
        "property_id": pid,
        "tier": ctx.tier,
        "seed": ctx.seed,
        "level": "exploration",
        "coverage": coverage,
        "assumptions": list(getattr(module, "ASSUMPTIONS", [])),
        "wall_s": round(time.time() - t0, 2),
        "violations": len(violations),
        "verdict": "violated" if violations else ("inconclusive" if inconclusive else "held on what was observed"),
    }
    os.makedirs(os.path.join(VERIF_ROOT, "evidence"), exist_ok=True)
    with open(os.path.join(VERIF_ROOT, "evidence", pid + ".json"), "w") as f:
        f.write(jdump(ev, indent=1, sort_keys=True) + "\n")

    say("%s tier=%s seed=%d: %d cases (%d distinct non-trivial), monitors=%s, %.1fs" % (
        pid, ctx.tier, ctx.seed, P.evaluations, n_distinct, dict(P.monitors), time.time() - t0))
    for k, v in sorted(known_seen.items()):
        say("KNOWN-FINDING: property=%s %s — %s (observed %d times)" % (pid, k, v["what"], v["count"]))
    if violations:
        for key, rp, dev in replay_paths:
            say("  deviation %s x%d: %s" % (key, dev["count"], dev["what"]))
            say("VIOLATION property=%s replay=%s" % (pid, rp))
        return 1
    if inconclusive:
        for r in inconclusive:
            say("INCONCLUSIVE property=%s %s" % (pid, r))
        return 2
    return 0
