"""C03 — any chain of format conversions preserves the interface (conversions commute).

Every hop is the real emitter -> rendered text -> re-read text -> real parser. The IR after
*every* hop of every sequence is observed and compared with the starting interface (names,
order, type strings, defaults by value and Python type); the first deviating hop of a sequence is
the witness. All sequences of length <= 3 over {class, pydantic, function, argparse,
docstring-rest} are explored exhaustively per interface as a prefix tree (so equality with the
start at every node implies that any two sequences commute), longer ones are sampled.
"""

import sys
from copy import deepcopy
from itertools import product

from vcdd import core
from vcdd.gen import irgen
from vcdd.oracle import hops
from vcdd.oracle.ircmp import cmp_ir

PID = "C03"
FORMATS = ("class", "pydantic", "function", "argparse", "docstring")
RULE = ("interfaces over scalar / Optional[scalar] / Literal[str..] types with signature-legal defaults; per interface "
        "the complete prefix tree of conversion sequences of length <= 3 over 5 formats (155 sequences) plus sampled "
        "sequences of length 4-5; a case = (interface, sequence); distinct by content digest; non-trivial = length >= 2")
REQUIRED_MONITORS = ("hop.observed", "sequence.len3.complete")
ASSUMPTIONS = [
    "core class: every parameter has a default (a default-less parameter is documented to become =None through "
    "`function`); default-less parameters are a probe class bound to known findings",
    "descriptions are not compared here (C01/C02 do); hops use the ReST docstring style",
]
CORE_T = ("int", "float", "str", "bool", "optional", "literal", "complex")
CORE_D = ("int", "negint", "zero", "float", "negfloat", "smallfloat", "bool", "str", "strspace", "strtilde", "imag",
          "strodd")
EXHAUSTIVE = {"what": "all conversion sequences of length 1..3 over 5 formats for every generated interface",
              "sequences_per_interface": 155}


def streams(ctx):
    return [("core", ctx.scale(200, 1500)), ("probe", ctx.scale(80, 500)), ("partial", ctx.scale(200, 2000))]


def gen_case(ctx, stream, idx):
    r = ctx.rng(stream, idx)
    if stream == "core" and idx % 6 == 5:
        return irgen.similar_ir(r, type_kinds=("int", "float", "str", "bool"), default_kinds=("int", "float", "str", "bool"),
                                all_defaults=True, with_return=False)
    if stream == "partial":
        # partially documented interfaces: one or two entries carry a description, two or more do not (what a parser
        # appends from the signature after the documented ones must come in the signature's order)
        ir = irgen.rand_ir(r, nparams=r.randint(3, 6), type_kinds=("int", "float", "str", "bool"),
                           default_kinds=("int", "negint", "float", "bool", "str"), all_defaults=True, with_return=False)
        names = list(ir["params"])
        keep = set(r.sample(names, r.randint(1, max(1, len(names) - 2))))
        for nm in names:
            if nm not in keep:
                ir["params"][nm]["doc"] = ""
        return ir
    if stream == "core":
        # (every 16th interface has no parameter at all: an empty signature is legal and every format can say it)
        # (str defaults include delimiter characters, a lone quote character, a directive: kind strodd)
        return irgen.rand_ir(r, nparams=0 if idx % 16 == 3 else r.randint(1, 5), type_kinds=CORE_T, default_kinds=CORE_D + ("strodd",),
                             all_defaults=True, with_return=False, doc_kinds=("plain", "plain", "punct"))
    # probe: required parameters, and str defaults with a double quote / backslash / backtick (which the docstring hop
    # cannot carry - a recorded finding - but every other hop must)
    ir = irgen.rand_ir(r, nparams=r.randint(1, 4), type_kinds=CORE_T + ("str",), default_kinds=CORE_D + ("absent", "strbad"),
                       with_return=r.random() < 0.3)
    if idx % 2 == 0:
        # every second probe interface carries one of the hard str defaults for certain
        ir["params"]["quoted"] = {"doc": irgen.rand_doc(r, stop=False), "typ": r.choice(("str", "str", "Optional[str]")),
                                  "default": r.choice(irgen.STRBAD)}
    return ir


def one_hop(ir, fmt):
    src, back = hops.hop(ir, fmt)
    carried = {"name": ir["name"], "type": "static", "doc": back.get("doc") or "", "params": back["params"],
               "returns": back.get("returns")}
    if "_internal" in back:
        # what a parser remembers about its source (original docstring, body) travels with the interface to the next
        # emitter, as it does when a caller hands a parser's result to an emitter
        carried["_internal"] = back["_internal"]
    back = carried
    return src, back


def classify(seq, d, start_shape):
    """mechanism: the hop (and its predecessor) at which the interface first differs, and how"""
    fmt = seq[-1]
    prev = seq[-2] if len(seq) > 1 else "start"
    where, field, how, tk, dk = d["where"], d["field"], d["how"], d["tkind"], d["dkind"]
    generic = "chain.%s.%s.%s.%s" % (fmt, where, field, how)
    detail = "prev=%s,t=%s,d=%s" % (prev, tk, dk)
    mech = None
    got = d.get("got")
    if where == "param" and dk == "absent":
        if fmt == "function" and field == "default" and how == "gained:str" and got == repr(irgen.NONE_STR):
            mech = "chain.function-hop-widens"  # documented: absent default shown as =None
        elif fmt == "argparse" and field == "default" and how.startswith("gained:"):
            mech = "argparse.required-without-default-gets-zero"
        elif fmt == "argparse" and field == "typ" and tk == "bool" and how == "bool->optional":
            mech = "argparse.bool-becomes-optional"
    if mech is None and where == "param" and dk == "none" and "absent" in start_shape:
        # after a function hop turned an absent default into None
        if field == "typ" and how.endswith("->optional") and prev != "start":
            mech = "chain.function-hop-widens"
        elif field == "default" and fmt == "argparse" and how == "lost":
            mech = "chain.function-hop-widens"
        elif fmt == "docstring" and field == "default" and (
                (how == "value" and got == repr("(None)")) or how in ("type:str->bool", "type:str->int",
                                                                     "type:str->float")):
            mech = "docstring.none-default-becomes-text"
    if mech is None and where == "hop" and fmt == "docstring" and how == "TypeError" and "absent" in start_shape and \
            "function" in seq:
        mech = "docstring.none-default-becomes-text"  # None marker under a scalar type: int(None) raises
    if mech is None and fmt == "docstring" and "strbad" in start_shape and (
            (where == "param" and dk == "strbad" and field == "default")
            or (where == "hop" and how in ("SyntaxError", "ValueError"))):
        mech = "docstring.str-default-with-quote-backslash-backtick"
    if mech is not None:
        return mech + "|" + generic + "," + detail
    return generic + "|" + detail


def normalise(expect, fmt):
    """documented normalisation: a function parameter without default is shown as `=None`"""
    if fmt != "function" or all("default" in p for p in expect["params"].values()):
        return expect
    expect = deepcopy(expect)
    for p in expect["params"].values():
        p.setdefault("default", irgen.NONE_STR)
    return expect


def explore(P, stream, idx, start, seq, cur, depth, max_depth, start_shape, expect=None):
    """prefix-tree exploration: every node's IR is compared with the start"""
    expect0 = start if expect is None else expect
    for fmt in FORMATS:
        expect = normalise(expect0, fmt)
        s2 = seq + (fmt,)
        P.case({"ir": start, "seq": s2}, nontrivial=len(s2) >= 2, klass="%s/len%d" % (stream, len(s2)),
               sample={"sequence": s2, "start": start})
        try:
            src, nxt = one_hop(cur, fmt)
            P.monitor("hop.observed")
        except Exception as e:
            P.deviation(classify(s2, {"where": "hop", "field": "raises", "how": type(e).__name__, "tkind": "-",
                                      "dkind": "-"}, start_shape),
                        "sequence %s raises %r" % ("->".join(s2), e),
                        {"stream": stream, "idx": idx, "sequence": s2, "start": start, "before_hop": cur})
            continue
        ds = cmp_ir(expect, nxt, doc=False, returns=False)
        if ds:
            for d in ds:
                P.deviation(classify(s2, d, start_shape),
                            "after %s: %s %s %s expected %r got %r" % ("->".join(s2), d["where"], d["field"], d["how"],
                                                                      d.get("exp"), d.get("got")),
                            {"stream": stream, "idx": idx, "sequence": s2, "start": start, "before_hop": cur,
                             "emitted": src, "after_hop": nxt, "diff": d})
            continue  # later hops of this prefix are polluted by the deviation already reported
        if depth + 1 < max_depth:
            explore(P, stream, idx, start, s2, nxt, depth + 1, max_depth, start_shape, expect)
        elif depth + 1 == 3:
            P.monitor("sequence.len3.complete")


def run_partial(ctx, P, stream, idx):
    """partially documented interfaces through the formats whose parser merges a docstring with code (class, pydantic,
    function), one and two hops: the names come back in the signature's order. The unchanged tree puts the documented
    entries first (recorded finding, keyed to exactly that order); any *other* order is a new deviation."""
    start = gen_case(ctx, stream, idx)
    names = list(start["params"])
    documented = [n for n in names if start["params"][n].get("doc")]
    defect_order = documented + [n for n in names if n not in documented]
    for seq in (("class",), ("pydantic",), ("function",), ("class", "function"), ("function", "class"), ("function", "pydantic")):
        cur = start
        P.case({"ir": start, "seq": seq}, klass="partial/len%d" % len(seq), sample={"sequence": seq, "start": start})
        try:
            for fmt in seq:
                src, cur = one_hop(cur, fmt)
                P.monitor("hop.observed")
        except Exception as e:
            P.deviation("chain.%s.hop.raises.%s|partial" % (seq[-1], type(e).__name__), "sequence %s raises %r" % ("->".join(seq), e),
                        {"stream": stream, "idx": idx, "sequence": seq, "start": start})
            continue
        got = list(cur["params"])
        P.monitor("partial.order.compared")
        if got == names:
            continue
        w = {"stream": stream, "idx": idx, "sequence": seq, "start": start, "emitted": src, "got": got}
        if got == defect_order:
            P.deviation("parse.partially-documented-entries-come-first|chain.%s.names.order|partial" % seq[-1],
                        "after %s: documented entries first: expected %r got %r" % ("->".join(seq), names, got), w)
        elif sorted(got) == sorted(names):
            P.deviation("chain.%s.names.order-arbitrary|partial" % seq[-1],
                        "after %s: order is neither the signature's nor documented-first: expected %r got %r" % (
                            "->".join(seq), names, got), w)
        else:
            P.deviation("chain.%s.names.differ|partial" % seq[-1], "after %s: names expected %r got %r" % ("->".join(seq), names, got), w)


def run_case(ctx, P, stream, idx):
    if stream == "partial":
        return run_partial(ctx, P, stream, idx)
    start = gen_case(ctx, stream, idx)
    start_shape = [dk for _, dk in irgen.shape(start)["params"]]
    explore(P, stream, idx, start, (), start, 0, 3, start_shape)
    # sampled longer sequences (length 4..5)
    r = ctx.rng(stream, idx, "long")
    for _ in range(ctx.scale(6, 40)):
        seq = tuple(r.choice(FORMATS) for _ in range(r.randint(4, 5)))
        cur, expect = start, start
        P.case({"ir": start, "seq": seq}, klass="%s/len%d" % (stream, len(seq)))
        for k, fmt in enumerate(seq):
            expect = normalise(expect, fmt)
            try:
                src, nxt = one_hop(cur, fmt)
                P.monitor("hop.observed")
            except Exception as e:
                P.deviation(classify(seq[:k + 1], {"where": "hop", "field": "raises", "how": type(e).__name__,
                                                  "tkind": "-", "dkind": "-"}, start_shape),
                            "sequence %s raises %r" % ("->".join(seq[:k + 1]), e),
                            {"stream": stream, "idx": idx, "sequence": seq[:k + 1], "start": start, "before_hop": cur})
                break
            ds = cmp_ir(expect, nxt, doc=False, returns=False)
            for d in ds:
                P.deviation(classify(seq[:k + 1], d, start_shape),
                            "after %s: %s %s %s expected %r got %r" % ("->".join(seq[:k + 1]), d["where"], d["field"],
                                                                      d["how"], d.get("exp"), d.get("got")),
                            {"stream": stream, "idx": idx, "sequence": seq[:k + 1], "start": start, "before_hop": cur,
                             "emitted": src, "after_hop": nxt, "diff": d})
            if ds:
                break
            cur = nxt
        else:
            P.monitor("sequence.long.complete")


if __name__ == "__main__":
    sys.exit(core.main(sys.modules[__name__]))
