"""C16 — the generated OpenAPI document is closed and matches the requested CRUD.

Observed values: the dict returned by the real `cdd.compound.openapi.emit.openapi` (from generated
name/model/route/id/crud tuples) and the dict returned by `openapi_bulk` after the real
`gen_routes` command wrote routes for generated SQLAlchemy model files. Reference oracle (M8): a
recursive `$ref` resolver, path-template parameter check, operation-set check, and the
json-schema of the model the routes were generated from.
"""

import json
import os
import random
import re
import shutil
import sys
import tempfile
from copy import deepcopy

import cdd.__main__
import cdd.compound.openapi.emit
import cdd.compound.openapi.gen_openapi
import cdd.json_schema.emit
import cdd.sqlalchemy.parse
from cdd.compound.openapi.utils.emit_openapi_utils import NameModelRouteIdCrud

from vcdd import core
from vcdd.gen import irgen
from vcdd.oracle import hops

PID = "C16"
CRUDS = ("C", "R", "D", "CR", "CD", "RD", "CRD")
CLI_CRUDS = ("C", "R", "D", "CR", "CD", "CRD")  # the subsets the gen_routes command line accepts
RULE = ("1..3 models per document; models = generated SQLAlchemy classes with explicit or inferred primary key, single- and "
        "multi-word names, 1..6 columns x non-empty CRUD subsets of {C,R,D} x route prefixes x app names; both the direct "
        "emitter (tuples) and the gen_routes -> routes file -> openapi_bulk path; a case = one document; distinct by "
        "content digest; non-trivial = at least one path")
REQUIRED_MONITORS = ("openapi.emit.observed", "openapi_bulk.observed", "refs.resolved", "operations.compared",
                     "path-params.checked", "model-schema.compared")
ASSUMPTIONS = ["a $ref is resolved as a JSON pointer inside the same document",
               "Create -> POST on the collection path; Read -> GET and Delete -> DELETE on the item path"]
SINGLE = ("Config", "Node", "Edge", "Thing", "Widget", "A", "X", "Ab", "T2")  # (incl. the shortest legal names)
MULTI = ("FooBar", "UserProfile", "OrderLine", "BodyPart", "Antibody", "ParamSet", "RefBody")  # (names that contain the suffixes the generator itself appends: Body, Param)
TABLEISH = ("alpha_beta", "user_account_tbl", "setting_tbl")


def streams(ctx):
    return [("emit", ctx.scale(4000, 25000)), ("bulk", ctx.scale(2000, 12000))]


def walk_refs(node, path=""):
    if isinstance(node, dict):
        for k, v in node.items():
            if k == "$ref" and isinstance(v, str):
                yield path, v
            else:
                yield from walk_refs(v, path + "/" + str(k))
    elif isinstance(node, list):
        for i, v in enumerate(node):
            yield from walk_refs(v, "%s/%d" % (path, i))


def resolve(doc, ref):
    if not ref.startswith("#/"):
        return False
    cur = doc
    for part in ref[2:].split("/"):
        part = part.replace("~1", "/").replace("~0", "~")
        if isinstance(cur, dict) and part in cur:
            cur = cur[part]
        else:
            return False
    return True


def check_document(P, doc, expect, feats, w):
    """expect: list of {"name", "route", "id", "crud", "schema" (or None)}"""

    def dev(kind, what, mech=None, **extra):
        P.deviation((mech + "|" if mech else "") + "openapi.%s|%s" % (kind, feats), what, dict(w, document=doc, **extra))

    try:
        json.dumps(doc)
    except Exception as e:
        # keep checking the rest of the document: it is still a dict
        dev("not-serialisable", "json.dumps raised %r" % (e,),
            mech="openapi.inferred-pk-server-default-not-json" if w.get("inferred_pk") and "type Call" in str(e) else None)
    P.monitor("refs.resolved")
    for where, ref in walk_refs(doc):
        if not resolve(doc, ref):
            dev("dangling-ref", "$ref %s at %s does not resolve" % (re.sub(r"/[^/]+$", "/<name>", ref), where[:80]),
                ref=ref, at=where)
    paths = doc.get("paths", {})
    P.monitor("path-params.checked")
    for tpl, item in paths.items():
        declared = set(p.get("name") for p in item.get("parameters", []) if isinstance(p, dict) and p.get("in") == "path")
        for op in item.values():
            if isinstance(op, dict):
                declared |= set(p.get("name") for p in op.get("parameters", []) if isinstance(p, dict)
                                and p.get("in") == "path")
        for name in re.findall(r"\{([^}]+)\}", tpl):
            if name not in declared:
                dev("path-param-undeclared", "path template %s uses {%s} which is not declared" % (
                    re.sub(r"[A-Za-z_]+", "x", tpl), "id"), template=tpl, param=name)
    # operations present == requested
    P.monitor("operations.compared")
    want = {}
    for e in expect:
        coll, item = e["route"], "%s/{%s}" % (e["route"], e["id"])
        if "C" in e["crud"]:
            want.setdefault(coll, set()).add("post")
        if "R" in e["crud"]:
            want.setdefault(item, set()).add("get")
        if "D" in e["crud"]:
            want.setdefault(item, set()).add("delete")
    got = {}
    for tpl, item in paths.items():
        ops = set(k for k, v in item.items() if k in ("get", "post", "put", "patch", "delete", "head", "options"))
        if ops:
            got[tpl] = ops
    if got != want:
        missing = {k: sorted(v - got.get(k, set())) for k, v in want.items() if v - got.get(k, set())}
        extra = {k: sorted(v - want.get(k, set())) for k, v in got.items() if v - want.get(k, set())}
        dev("operations-differ", "operations present != requested: missing %r, unexpected %r" % (missing, extra),
            mech=w.get("ops_mech"), want={k: sorted(v) for k, v in want.items()}, got={k: sorted(v) for k, v in got.items()})
    # request bodies referenced exist (also covered by the $ref walk) and schemas describe the model
    schemas = doc.get("components", {}).get("schemas", {})
    for e in expect:
        if e.get("schema") is None:
            continue
        P.monitor("model-schema.compared")
        key = e.get("schema_key", e["name"])
        if key not in schemas:
            dev("model-schema-missing", "no components/schemas entry for the model", mech=w.get("schema_mech"),
                wanted_key=key, keys=sorted(schemas))
            continue
        want_s = {k: v for k, v in e["schema"].items() if not k.startswith("$")}
        if core.jdump(schemas[key], sort_keys=True) != core.jdump(want_s, sort_keys=True):  # AST values by text
            diffk = sorted(k for k in set(want_s) | set(schemas[key])
                           if core.jdump(want_s.get(k), sort_keys=True) != core.jdump(schemas[key].get(k), sort_keys=True))
            dev("model-schema-differs." + ",".join(diffk)[:40], "schema of the model differs in %r" % diffk,
                want=want_s, got=schemas[key])
        # every operation of this model references this schema / its request body
        coll, item = e["route"], "%s/{%s}" % (e["route"], e["id"])
        for tpl in (coll, item):
            for opname, op in paths.get(tpl, {}).items():
                if not isinstance(op, dict) or opname == "parameters":
                    continue
                refs = [r for _, r in walk_refs(op)]
                model_refs = [r for r in refs if not r.endswith("/ServerError")]
                bad = [r for r in model_refs if r.rpartition("/")[2] not in (key, key + "Body", e["name"], e["name"] + "Body")]
                if bad:
                    dev("operation-references-other-model", "%s %s references %r" % (opname, "item" if tpl == item else
                                                                                   "collection", bad[:3]))
                # ... and what it says in prose (summary, descriptions) names no *other* model of the document
                P.monitor("operation-prose.checked")
                others = set()
                for e2 in expect:
                    if e2 is not e:
                        others.update((e2["name"], e2.get("schema_key", e2["name"])))
                others -= {e["name"], key}
                named = set(re.findall(r"`([^`]+)`", core.jdump([op.get("summary"), op.get("description")] + [
                    p_.get("description") for p_ in op.get("parameters", []) if isinstance(p_, dict)])))
                if named & others:
                    dev("operation-names-other-model", "%s %s (model %s) talks about %r: summary %r" % (
                        opname, tpl, e["name"], sorted(named & others), op.get("summary")))


def gen_model_ir(r, name, explicit_pk):
    ir = irgen.rand_ir(r, nparams=r.randint(1, 6), type_kinds=("int", "float", "str", "bool", "optional", "literal"),
                       default_kinds=("absent", "int", "float", "str", "bool"), suffix_defaults=False, with_return=False,
                       name=name, doc_kinds=("plain", "plain", "punct"))
    for p in ir["params"].values():
        if p["typ"].startswith("Optional["):
            p.pop("default", None)
    if random.Random(r.random()).random() < 0.35:
        ir["doc"] = ""  # a model without docstring / table comment (several of them in one process start from the same nothing)
    if explicit_pk:
        # the key column stands first, in the middle or last (a fall-back to "the first column" must not be what finds it)
        k = r.choice(list(ir["params"]))
        ir["params"][k] = {"doc": "[PK] " + ir["params"][k]["doc"], "typ": r.choice(("int", "str"))}
        ir["_pk"] = k
    return ir


def run_case(ctx, P, stream, idx):
    r = ctx.rng(stream, idx)
    w = {"stream": stream, "idx": idx}
    n = r.randint(1, 3)
    if stream == "emit":
        names = r.sample(SINGLE + MULTI, n)
        expect, tuples = [], []
        for nm in names:
            ir = gen_model_ir(r, nm, True)
            ir.pop("_pk", None)
            schema = hops.emit(ir, "json_schema")[0]
            route = r.choice(("/api/%s", "/v1/%s", "/%s")) % nm.lower()
            pk = r.choice(("id", nm.lower() + "_id", "name"))
            crud = r.choice(CRUDS)
            tuples.append(NameModelRouteIdCrud(name=nm, model=schema, route=route, id=pk, crud=crud))
            expect.append({"name": nm, "route": route, "id": pk, "crud": crud, "schema": None})
        doc = cdd.compound.openapi.emit.openapi(tuples)
        P.monitor("openapi.emit.observed")
        P.case({"tuples": [list(t[:1]) + list(t[2:]) for t in tuples]}, nontrivial=bool(doc.get("paths")),
               klass="emit/n=%d" % n, sample={"models": [{"name": t.name, "route": t.route, "id": t.id, "crud": t.crud}
                                                         for t in tuples]})
        # the direct emitter does not register the model schemas itself: referenced schema components must exist
        feats = "via=emit,n=%d,crud=%s" % (n, "+".join(sorted(set(e["crud"] for e in expect))))
        check_document(P, doc, expect, feats, dict(w, ops_mech=None, schema_mech=None,
                                                   multiword=False, emit_direct=True))
        return
    # bulk: SQLAlchemy model files -> gen_routes command -> routes file(s) -> openapi_bulk
    d = tempfile.mkdtemp(prefix="vcdd-c16-")
    try:
        app = r.choice(("rest_api", "app", "my_app"))
        shared_routes = n > 1 and r.random() < 0.3
        names = r.sample(SINGLE + MULTI + TABLEISH, n)
        multiword = any(nm in MULTI + TABLEISH for nm in names)
        expect, model_paths, routes_paths = [], [], []
        ok, inferred_pk = True, False
        for j, nm in enumerate(names):
            explicit = r.random() < 0.6
            ir = gen_model_ir(r, nm, explicit)
            pk_name = ir.pop("_pk", None)
            inferred_pk = inferred_pk or not explicit
            cls_name = "".join(p.title() for p in nm.replace("_tbl", "").split("_")) if "_" in nm else nm
            src = "from sqlalchemy import Column, Integer, String, Float, Boolean, Enum, Identity\n\n\n" + hops.emit(
                dict(ir, name=cls_name), "sqlalchemy", table_name=nm)[1] + "\n"
            mp = os.path.join(d, "models_%d.py" % j)
            with open(mp, "w") as f:
                f.write(src)
            model_paths.append(mp)
            rp = os.path.join(d, "routes.py" if shared_routes else "routes_%d.py" % j)
            if rp not in routes_paths:
                routes_paths.append(rp)
            crud = r.choice(CLI_CRUDS)
            route = r.choice(("/api/%s", "/v1/%s")) % nm.replace("_tbl", "").lower()
            try:
                cdd.__main__.main(["gen_routes", "--crud", crud, "--app-name", app, "--model-path", mp, "--model-name",
                                   cls_name, "--routes-path", rp, "--route", route])
            except BaseException as e:
                P.count("gen_routes.raised:" + type(e).__name__)
                ok = False
                break
            parsed = cdd.sqlalchemy.parse.sqlalchemy(__import__("ast").parse(src).body[-1])
            # the key the model was generated with (not what the parser under test says it is); without an explicit key the
            # item is addressed by what the tool infers
            pk = pk_name or next((k for k, v in parsed["params"].items() if (v.get("doc") or "").startswith("[PK]")),
                                 list(parsed["params"])[0])
            schema = cdd.json_schema.emit.json_schema(deepcopy(parsed))
            expect.append({"name": cls_name, "route": route, "id": pk, "crud": crud, "schema": schema,
                           "schema_key": cls_name, "table": nm})
        P.case({"names": names, "app": app, "shared": shared_routes, "models": [open(p).read() for p in model_paths]},
               klass="bulk/n=%d/shared=%s" % (n, shared_routes),
               sample={"models": names, "app": app, "shared_routes_file": shared_routes,
                       "cruds": [e["crud"] for e in expect]})
        if not ok:
            return
        try:
            doc = cdd.compound.openapi.gen_openapi.openapi_bulk(app_name=app, model_paths=model_paths,
                                                                routes_paths=routes_paths)
            P.monitor("openapi_bulk.observed")
        except BaseException as e:
            P.deviation("openapi.bulk-raises.%s|via=bulk,n=%d,shared=%s" % (type(e).__name__, n, shared_routes),
                        "openapi_bulk raised %r" % (e,), dict(w, routes=[open(p).read() for p in routes_paths]))
            return
        feats = "via=bulk,n=%d,shared=%s,multiword=%s" % (n, shared_routes, multiword)
        check_document(P, doc, expect, feats, dict(
            w, routes=[open(p).read() for p in routes_paths], multiword=multiword,
            ops_mech=None, schema_mech=None, inferred_pk=inferred_pk))
    finally:
        shutil.rmtree(d, ignore_errors=True)


if __name__ == "__main__":
    sys.exit(core.main(sys.modules[__name__]))
