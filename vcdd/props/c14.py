"""C14 — every parser returns a well-formed interface description.

Monitor: M1 `ensure` on all real parser entry points (docstring, function, class, pydantic,
argparse, json-schema, three SQLAlchemy parsers, parse_docstring). The condition validates the
documented shape of whatever is *returned* (a parser that raises made no claim). For
`function.parse` it additionally checks that every signature parameter appears exactly once.
Workload: emitter-produced sources for all formats and styles over a deliberately wide interface
domain, grammar-generated docstrings (sections, usage/notes/raises footers, multi-line
descriptions, *args/**kwargs entries, indentation), generated functions with
positional-only / keyword-only / variadic parameters, and arbitrary token text for the docstring
parser.
"""

import ast
import os
import sys
from collections import OrderedDict
from copy import deepcopy

import cdd.argparse_function.parse
import cdd.class_.parse
import cdd.docstring.parse
import cdd.function.parse
import cdd.json_schema.parse
import cdd.pydantic.parse
import cdd.shared.docstring_parsers
import cdd.sqlalchemy.parse

from vcdd import REPO, core
from vcdd.gen import corpus, docgen, irgen
from vcdd.monitors import contracts
from vcdd.oracle import hops

PID = "C14"
RULE = ("(a) random interfaces (wide domain incl. None/code/empty defaults, dict/list types, non-suffix defaults) emitted "
        "in every format x 3 styles and fed to the matching parser; (b) grammar-generated docstrings in 3 styles x "
        "indentation 0..2 with footers, multi-line descriptions, *args/**kwargs entries, with/without types; (c) generated "
        "function definitions with positional-only, keyword-only, *args, **kwargs, self/cls and partial docstrings; (d) "
        "random token text for the docstring parser; a case = one parser input; distinct by content digest; "
        "non-trivial = the parser returned (did not raise)")
REQUIRED_MONITORS = ("docstring.parse.post", "function.parse.post", "class_.parse.post", "argparse_ast.parse.post",
                     "json_schema.parse.post", "sqlalchemy.parse.post", "sqlalchemy_table.parse.post",
                     "sqlalchemy_hybrid.parse.post", "pydantic.parse.post", "function.signature.checked")
ASSUMPTIONS = ["a parser that raises makes no claim about shape (counted as 'raised', not a deviation)",
               "entry keys allowed: typ, doc, default, x_typ; `typ` must be a str that ast.parse(mode='eval') accepts"]
CUR = {}
ALLOWED = frozenset(("typ", "doc", "default", "x_typ"))
STYLES = ("rest", "google", "numpydoc")


def check_entry(name, entry, where):
    out = []
    if not isinstance(entry, dict):
        return [("entry-not-mapping", "%s %r is %s" % (where, name, type(entry).__name__))]
    extra = sorted(set(entry) - ALLOWED)
    if extra:
        out.append(("entry-extra-keys:" + ",".join(extra), "%s %r has keys %r" % (where, name, extra)))
    if "typ" in entry:
        t = entry["typ"]
        if not isinstance(t, str):
            out.append(("typ-not-str:" + type(t).__name__, "%s %r typ=%r" % (where, name, t)))
        elif not t.strip():
            out.append(("typ-empty", "%s %r typ=%r" % (where, name, t)))
        else:
            try:
                ast.parse(t.strip(), mode="eval")
            except SyntaxError:
                out.append(("typ-not-expression", "%s %r typ=%r" % (where, name, t)))
    if "doc" in entry and not isinstance(entry["doc"], str):
        out.append(("doc-not-str:" + type(entry["doc"]).__name__, "%s %r doc=%r" % (where, name, entry["doc"])))
    return out


def wellformed(ir):
    out = []
    if not isinstance(ir, dict):
        return [("ir-not-mapping", type(ir).__name__)]
    if "name" not in ir:
        out.append(("name-missing", "no 'name' key"))
    elif ir["name"] is not None and not isinstance(ir["name"], str):
        out.append(("name-not-str", repr(ir["name"])))
    if "doc" not in ir:
        out.append(("doc-missing", "no 'doc' key"))
    elif not isinstance(ir["doc"], str):
        out.append(("ir-doc-not-str:" + type(ir["doc"]).__name__, repr(ir["doc"])[:80]))
    params = ir.get("params")
    if not isinstance(params, dict):
        out.append(("params-not-mapping", type(params).__name__))
        params = {}
    seen = set()
    for k, v in params.items():
        if not isinstance(k, str) or not k:
            out.append(("param-name-empty-or-not-str", repr(k)))
            continue
        if k.startswith("*"):
            out.append(("param-name-leading-asterisk", k))
        bare = k.lstrip("*")
        if bare in seen:
            out.append(("param-name-duplicate", k))
        seen.add(bare)
        out += check_entry(k, v, "param")
    if "returns" not in ir:
        out.append(("returns-missing", "no 'returns' key"))
    else:
        ret = ir["returns"]
        if ret is not None:
            if not isinstance(ret, dict):
                out.append(("returns-not-mapping", type(ret).__name__))
            elif list(ret) != ["return_type"]:
                out.append(("returns-keys", repr(list(ret))))
            else:
                out += check_entry("return_type", ret["return_type"], "return")
    return out


UNCONSUMED_COLUMN_KWARGS = frozenset(("server_default", "index", "unique", "autoincrement", "onupdate", "key", "info",
                                      "quote", "system", "sort_order", "server_onupdate"))
REST_FOOTER_MARKERS = ("Example:", "Usage:", "Note:", ">>> ", ":raises")


def mechanism(parser, rule, detail, source, extra):
    """known-finding mechanism for a shape deviation, from the *shape of the input* and the rule"""
    klass = CUR.get("klass") or ""
    src = source or ""
    if parser.startswith("sqlalchemy") and rule.startswith("entry-extra-keys:") and set(
            rule.split(":", 1)[1].split(",")) <= UNCONSUMED_COLUMN_KWARGS:
        # only keywords the parser does not interpret; a leaked *interpreted* keyword (primary_key, nullable,
        # foreign_key, default, doc, comment) is a different defect
        return "sqlalchemy.parse.column-kwargs-leak-as-entry-keys"
    if rule == "typ-not-expression" and parser in ("docstring", "parse_docstring", "function", "class_") and (
            ":param" in src or ":return" in src or ":rtype" in src or ":type" in src) and any(
            m in src for m in REST_FOOTER_MARKERS) and klass != "tokens" and ":raises" not in detail:
        # (a `:raises` field is cut off by the scanner of the unchanged tree and never ends up inside a type: keyed to the
        # absorbed text, not to the presence of a footer)
        return "docstring.rest.footer-absorbed-into-last-type"
    if klass == "tokens" and parser in ("docstring", "parse_docstring") and rule in (
            "param-name-empty-or-not-str", "typ-empty", "typ-not-expression"):
        return "docstring.parse.arbitrary-text-malformed-entry"
    if parser == "function":
        if rule == "signature-parameter-not-exactly-once" and extra.get("missing_kinds") and set(
                extra["missing_kinds"]) <= {"vararg", "kwarg", "posonly"}:
            return "function.parse.variadic-parameter-dropped"
        if rule == "typ-not-str:NoneType" and extra.get("unannotated"):
            return "function.parse.unannotated-parameter-typ-None"
        if rule == "doc-missing" and extra.get("no_docstring"):
            return "function.parse.doc-key-missing-without-docstring"
    if parser == "argparse_ast":
        if rule == "returns-missing":
            return "argparse.parse.returns-key-missing"
        if rule == "doc-not-str:NoneType" and "'" in detail and detail.split("'")[1] in extra.get("no_help", ()):
            return "argparse.parse.option-without-help-doc-None"
    return None


import re

NAMELESS_FIELD = re.compile(r"^\s*:(type|param|cvar|ivar|var)\s*:", re.M)


def record(P, parser, ir, problems, source, extra=None):
    for rule, detail in problems:
        if (CUR.get("klass") or "").startswith("corpus") and NAMELESS_FIELD.search(source or ""):
            P.count("corpus.input-with-nameless-field")  # `:type: str` - a field without a name is not well-formed input
            continue
        if (CUR.get("klass") or "").startswith("corpus") and rule == "typ-not-expression" and "typ=" in detail:
            # hand-written docstrings of the corpus carry types that are not expressions (`List[]`, an unbalanced
            # backtick); a parser that hands such a type through verbatim has not malformed anything: the property
            # speaks of well-formed inputs. Only a type that is *not* what the input says is the parser's doing.
            written = detail.split("typ=", 1)[1].strip()
            try:
                written = ast.literal_eval(written)
            except Exception:
                pass
            if isinstance(written, str) and written.strip("`").strip() and written.strip("`").strip() in (source or ""):
                P.count("corpus.input-type-not-an-expression")
                continue
        key = "ir-shape.%s.%s" % (parser, rule)
        mech = mechanism(parser, rule, detail, source, extra or {})
        P.deviation((mech + "|" if mech else "") + key + "|class=%s" % CUR.get("klass"),
                    "%s returned a malformed interface: %s (%s)" % (parser, rule, detail),
                    {"stream": CUR.get("stream"), "idx": CUR.get("idx"), "parser": parser, "rule": rule,
                     "detail": detail, "input": source if source is None or len(source) < 3000 else source[:3000],
                     "returned": ir})


def _src(x):
    if isinstance(x, ast.AST):
        try:
            return ast.unparse(x)
        except Exception:
            return ast.dump(x)[:2000]
    return x if isinstance(x, str) else repr(x)[:2000]


def make_post(parser, argname):
    def observe(arg, result):
        P = CUR.get("P")
        if P is None:
            return True
        P.monitor(parser + ".parse.post")
        ir = result[0] if isinstance(result, tuple) else result
        extra = {}
        is_fn = parser == "function" and isinstance(arg, (ast.FunctionDef, ast.AsyncFunctionDef))
        if parser == "argparse_ast" and isinstance(arg, ast.FunctionDef):
            extra["no_help"] = [c.args[0].value.lstrip("-") for c in ast.walk(arg) if isinstance(c, ast.Call)
                                and getattr(c.func, "attr", None) == "add_argument" and c.args
                                and isinstance(c.args[0], ast.Constant) and isinstance(c.args[0].value, str)
                                and not any(k.arg == "help" for k in c.keywords)]
        if is_fn:
            a = arg.args
            allargs = a.posonlyargs + a.args + a.kwonlyargs + [x for x in (a.vararg, a.kwarg) if x]
            extra["no_docstring"] = ast.get_docstring(arg) is None
            unannot = set(x.arg for x in allargs if x.annotation is None)
        for rule, detail in wellformed(ir):
            ex = dict(extra)
            if is_fn and rule == "typ-not-str:NoneType":
                ex["unannotated"] = detail.split("'")[1] in unannot if "'" in detail else False
            record(P, parser, ir, [(rule, detail)], _src(arg), ex)
        if is_fn and isinstance(ir, dict):
            P.monitor("function.signature.checked")
            kinds = {}
            names = [x.arg for x in a.posonlyargs + a.args]
            for x in a.args:
                kinds[x.arg] = "regular"
            for x in a.posonlyargs:
                kinds[x.arg] = "posonly"
            if names and names[0] in ("self", "cls"):
                names = names[1:]
            for x in a.kwonlyargs:
                names.append(x.arg)
                kinds[x.arg] = "kwonly"
            if a.vararg:
                names.append(a.vararg.arg)
                kinds[a.vararg.arg] = "vararg"
            if a.kwarg:
                names.append(a.kwarg.arg)
                kinds[a.kwarg.arg] = "kwarg"
            keys = [k.lstrip("*") for k in (ir.get("params") or {})]
            missing = [n for n in names if keys.count(n) != 1]
            if missing:
                record(P, parser, ir, [("signature-parameter-not-exactly-once", "%r not exactly once in %r" % (
                    missing, keys))], _src(arg), dict(extra, missing_kinds=[kinds[m] for m in missing]))
        return True

    # icontract resolves condition arguments by *name*: build a function with the right parameter name
    ns = {"observe": observe}
    exec("def post_%s(%s, result):\n    return observe(%s, result)\n" % (parser, argname, argname), ns)
    return ns["post_%s" % parser]


PARSERS = [
    (cdd.docstring.parse, "docstring", "docstring", "doc_string"),
    (cdd.shared.docstring_parsers, "parse_docstring", "parse_docstring", "docstring"),
    (cdd.function.parse, "function", "function", "function_def"),
    (cdd.class_.parse, "class_", "class_", "class_def"),
    (cdd.pydantic.parse, "pydantic", "pydantic", "class_def"),
    (cdd.argparse_function.parse, "argparse_ast", "argparse_ast", "function_def"),
    (cdd.json_schema.parse, "json_schema", "json_schema", "json_schema_dict"),
    (cdd.sqlalchemy.parse, "sqlalchemy", "sqlalchemy", "class_def"),
    (cdd.sqlalchemy.parse, "sqlalchemy_table", "sqlalchemy_table", "call_or_name"),
    (cdd.sqlalchemy.parse, "sqlalchemy_hybrid", "sqlalchemy_hybrid", "class_def"),
]


def setup_shard(ctx, P):
    import inspect

    for mod, attr, label, argname in PARSERS:
        real = list(inspect.signature(getattr(mod, attr)).parameters)[0]
        contracts.attach(mod, attr, make_post(label, real))


def streams(ctx):
    return [("emitted", ctx.scale(400, 3000)), ("docstrings", ctx.scale(5000, 50000)), ("functions", ctx.scale(2000, 20000)),
            ("tokens", ctx.scale(8000, 100000)), ("sqlalchemy_hand", ctx.scale(2500, 25000)),
            ("corpus_defs", len(corpus.definitions())), ("corpus_docs", len(corpus.docstrings())), ("suite", 1)]


def gen_function(r):
    """a function/method definition with a rich signature and a (possibly partial) docstring"""
    n = r.randint(0, 5)
    names = r.sample(irgen.NAMES, n)
    first = r.choice(("", "", "self", "cls"))
    if n and r.random() < 0.12:
        # a plain function whose first positional parameter merely looks like a receiver
        names[0], first = r.choice(("self_mask", "cls_token", "selfish", "self_", "cls2")), ""
        names = list(dict.fromkeys(names))
        n = len(names)
    pos = names[: r.randint(1 if (names and names[0].startswith(("self", "cls"))) else 0, n)]
    kwo = names[len(pos):]
    posonly_k = r.randint(0, len(pos)) if r.random() < 0.3 else 0

    def arg(nm, allow_default):
        typ = irgen.make_type(r, r.choice(("int", "float", "str", "bool", "optional", "literal", "list"))) \
            if r.random() < 0.6 else None
        s = nm + (": %s" % typ if typ else "")
        d = None
        if allow_default and r.random() < 0.5:
            d = r.choice(("5", "-3", "2.5", "'hello'", "True", "None", "()", "[]"))
            s += (" = " if typ else "=") + d
        return s, typ, d

    parts, doc_params = [], []
    seen_default = False
    if first:
        parts.append(first)
    for i, nm in enumerate(pos):
        s, typ, d = arg(nm, True)
        if seen_default and d is None:
            s += "=None"
        seen_default = seen_default or "=" in s
        parts.append(s)
        doc_params.append((nm, typ))
        if posonly_k and i + 1 == posonly_k:
            parts.append("/")
    vararg = r.random() < 0.3
    if vararg:
        parts.append("*args")
    elif kwo:
        parts.append("*")
    for nm in kwo:
        s, typ, d = arg(nm, True)
        parts.append(s)
        doc_params.append((nm, typ))
    if r.random() < 0.3:
        parts.append("**kwargs")
    ret = " -> %s" % r.choice(("int", "str", "Optional[bool]", "None")) if r.random() < 0.4 else ""
    style = r.choice(STYLES + ("none",))
    body = "    pass\n"
    if style != "none":
        documented = [p for p in doc_params if r.random() < 0.7]
        r.shuffle(documented) if r.random() < 0.3 else None
        dps = [(nm, typ if r.random() < 0.5 else None, irgen.rand_doc(r), Ellipsis) for nm, typ in documented]
        if vararg and r.random() < 0.5:
            dps.append(("*args", None, "extras", Ellipsis))
        text, _ = docgen.compose(r, style, indent=1, params=dps, with_footer=r.random() < 0.2)
        body = '    """%s"""\n    return None\n' % text.replace("\\", "\\\\").replace('"""', "'''")
    deco = "@staticmethod\n" if first == "" and r.random() < 0.1 else ""
    kw = "async def" if r.random() < 0.15 else "def"
    return "%s%s foo(%s)%s:\n%s" % (deco, kw, ", ".join(parts), ret, body)


def gen_sqlalchemy_model(r):
    """hand-written SQLAlchemy models (independent of the emitter): explicit flag values, optional docs, extra keywords"""
    cols = []
    names = r.sample(irgen.NAMES[:24], r.randint(2, 5))
    documented = []
    for i, nm in enumerate(names):
        sqlt, pyt = r.choice((("Integer", "int"), ("String", "str"), ("Float", "float"), ("Boolean", "bool"), ("JSON", "dict"),
                              ("Enum('a', 'b', name='%s')" % nm, "str"), ("String(20)", "str"), ("LargeBinary", "bytes")))
        kws = []
        if i == 0:
            kws.append("primary_key=True")
        elif r.random() < 0.35:
            kws.append("primary_key=False")
        if r.random() < 0.3 and sqlt == "Integer" and i:
            sqlt += ", ForeignKey(%r)" % r.choice(("node.id", "element_tbl.node_id", ""))
        if r.random() < 0.4:
            kws.append("nullable=%s" % r.choice(("True", "False")))
        if r.random() < 0.4:
            kws.append("default=%s" % {"int": "5", "str": "'s'", "float": "0.0", "bool": "False", "dict": "None",
                                       "bytes": "None"}[pyt])
        if r.random() < 0.2:
            kws.append(r.choice(("index=True", "unique=True", "autoincrement=False", "server_default='x'")))
        if r.random() < 0.5:
            kws.append("%s=%r" % (r.choice(("doc", "comment")), irgen.rand_doc(r, stop=False)))
        elif r.random() < 0.5:
            documented.append(nm)
        cols.append((nm, sqlt, kws))
    doc = "\n    %s\n\n%s\n    " % (irgen.rand_doc(r, 4, stop=False), "\n".join(
        "    :cvar %s: %s" % (nm, irgen.rand_doc(r, stop=False)) for nm in documented))
    if r.random() < 0.5:
        body = "\n".join("    %s = Column(%s)" % (nm, ", ".join([t] + kws)) for nm, t, kws in cols)
        return 'class Foo(Base):\n    """%s"""\n    __tablename__ = "foo"\n\n%s\n' % (doc, body), "sqlalchemy"
    body = ",\n    ".join("Column(%s)" % ", ".join([repr(nm), t] + kws) for nm, t, kws in cols)
    return 'foo = Table(\n    "foo",\n    metadata,\n    %s,\n    comment=%r,\n)\n' % (body, irgen.rand_doc(r, 4)), "sqlalchemy_table"


def run_case(ctx, P, stream, idx):
    r = ctx.rng(stream, idx)
    CUR.update(P=P, stream=stream, idx=idx, klass=stream)
    if stream == "sqlalchemy_hand":
        src, fmt = gen_sqlalchemy_model(r)
        P.case({"src": src}, klass="sqlalchemy_hand/" + fmt, sample={"model": src})
        node = ast.parse(src).body[0]
        for parser in ((cdd.sqlalchemy.parse.sqlalchemy, cdd.sqlalchemy.parse.sqlalchemy_hybrid) if fmt == "sqlalchemy"
                       else (cdd.sqlalchemy.parse.sqlalchemy_table,)):
            try:
                parser(deepcopy(node))
            except Exception:
                P.count("parse.raised")
        CUR.update(P=None)
        return
    if stream == "suite":
        # the repository's own test-suite as a workload: its mocks (keras / torch / tensorflow style classes, functions,
        # argparse functions, SQLAlchemy models, schemas) reach the parsers while the contracts observe; whether a test
        # passes is not this check's business
        import contextlib
        import io

        import pytest

        before = sum(P.monitors.values())
        buf = io.StringIO()
        with contextlib.redirect_stdout(buf), contextlib.redirect_stderr(buf):
            pytest.main(["-q", "-p", "no:cacheprovider", "--no-header", "--deselect",
                         "cdd/tests/test_compound/test_exmod.py", "--rootdir", REPO, os.path.join(REPO, "cdd", "tests")])
        seen = sum(P.monitors.values()) - before
        P.case({"suite": "cdd/tests"}, nontrivial=seen > 0, klass="suite", sample={"suite": "cdd/tests", "parser_returns_observed": seen})
        P.count("suite.parser-returns-observed", seen)
        CUR.update(P=None)
        return
    if stream in ("corpus_defs", "corpus_docs"):
        # the repository's own definitions and docstrings (package, tests, third-party style mocks): nobody generated them
        if stream == "corpus_docs":
            origin, text = corpus.docstrings()[idx]
            P.case({"doc": text}, klass="corpus/docstring", sample={"origin": origin, "docstring": text[:300]})
            try:
                cdd.docstring.parse.docstring(text)
            except Exception:
                P.count("parse.raised")
        else:
            rel, q, kind, seg, doc = corpus.definitions()[idx]
            P.case({"def": seg}, klass="corpus/" + kind, sample={"origin": rel + ":" + q, "source": (seg or "")[:300]})
            try:
                node = ast.parse(seg).body[0]
                (cdd.class_.parse.class_ if kind == "ClassDef" else cdd.function.parse.function)(node)
            except Exception:
                P.count("parse.raised")
        CUR.update(P=None)
        return
    before = sum(P.monitors.values())
    if stream == "emitted":
        ir = irgen.rand_ir(r, nparams=r.randint(0, 6), suffix_defaults=r.random() < 0.6,
                           doc_kinds=("plain", "trigger", "multiline", "stop", "none"), return_default=r.random() < 0.3)
        for fmt in hops.FORMATS:
            for style in STYLES:
                CUR["klass"] = "emitted/" + fmt
                kw = {} if fmt == "json_schema" else {"docstring_format": style}
                try:
                    node, src = hops.emit(ir, fmt, **kw)
                except Exception:
                    P.count("emit.raised")
                    continue
                P.case({"fmt": fmt, "src": src}, nontrivial=True, klass="emitted/" + fmt,
                       sample={"format": fmt, "style": style, "source_head": src[:300]})
                try:
                    hops.parse(src, fmt)
                except Exception:
                    P.count("parse.raised")
                if fmt == "json_schema":
                    break
    elif stream == "docstrings":
        style = r.choice(STYLES)
        types = r.random() < 0.8
        params = docgen.rand_params(r, star=r.random() < 0.3, types=types, trigger=r.random() < 0.2)
        rk = __import__("random").Random(r.random())
        kwc = {}
        if types and rk.random() < 0.15:
            # a type that has a colon of its own (a Literal member, a slice, a Callable signature): the field's value starts
            # after the colon that closes the field marker, not after the last one
            kwc["returns"] = (rk.choice(("Literal['host:port', 'socket']", "Literal['a:b']", "Dict[str, Literal['x:y', 'z']]")),
                              irgen.rand_doc(rk, stop=False))
            params = [(p_[0], rk.choice((p_[1], "Literal['k:v', 'kv']")) if p_[1] else p_[1]) + tuple(p_[2:]) for p_ in params]
        text, parts = docgen.compose(r, style, indent=r.randint(0, 2), params=params, types=types,
                                     lead_nl=r.random() < 0.8, multi_line=r.random() < 0.3, **kwc)
        P.case({"doc": text}, klass="docstrings/" + style, sample={"style": style, "docstring": text})
        for kw in ({}, {"infer_type": True}, {"emit_default_doc": False}, {"parse_original_whitespace": True}):
            try:
                cdd.docstring.parse.docstring(text, **kw)
            except Exception:
                P.count("parse.raised")
    elif stream == "functions":
        src = gen_function(r)
        P.case({"src": src}, klass="functions", sample={"function": src})
        try:
            node = ast.parse(src).body[0]
        except SyntaxError as e:
            P.error("generator produced invalid python: %r\n%s" % (e, src))
            return
        for kw in ({}, {"infer_type": True}, {"parse_original_whitespace": True}):
            try:
                cdd.function.parse.function(deepcopy(node), **kw)
            except Exception:
                P.count("parse.raised")
    else:
        text = docgen.token_string(r, r.randint(1, 10))
        P.case({"tokens": text}, klass="tokens", sample={"text": text})
        try:
            cdd.docstring.parse.docstring(text)
        except Exception:
            P.count("parse.raised")
    CUR.update(P=None)


if __name__ == "__main__":
    sys.exit(core.main(sys.modules[__name__]))
