"""C07 — doctrans changes only docstrings and annotations, never the program.

Observed at the boundary of the real `cdd.compound.doctrans.doctrans` (and, for a sample, of the
real command `python -m cdd doctrans` in a subprocess): file bytes before/after, ast + tokenize of
both, a file-system snapshot of the directory (M3), and — for the 'fails midway' clause — a
source-free failpoint (M4) that raises inside the conversion at a seeded line event.
"""

import ast
import os
import shutil
import subprocess
import sys
import tempfile

import cdd.compound.doctrans

from vcdd import REPO, core
from vcdd.gen import corpus, progen
from vcdd.monitors import fsnap
from vcdd.monitors.steps import StepMonitor
from vcdd.oracle import astcmp

PID = "C07"
STYLES = ("rest", "google", "numpydoc")
RULE = ("generated modules (functions, async functions, methods, nested definitions, classes; defaults, annotations, "
        "*args/**kwargs, keyword-only and positional-only markers, multi-line headers, decorators incl. multi-line, base "
        "classes; docstrings in 3 styles / plain / none; comments; simple bodies) x target style x type_annotations x "
        "word-wrap, applied 1-2 times; a case = (module, configuration); distinct by content digest; non-trivial = the "
        "module has at least one def/class")
REQUIRED_MONITORS = ("doctrans.observed", "ast.erased.compared", "comments.compared", "lines.compared",
                     "fs.snapshot.compared", "failpoint.injected", "failpoint.injected.late-stage")
ASSUMPTIONS = [
    "`erase` drops docstring statements, parameter/return/variable annotations and type comments and nothing else",
    "'# type:' comments are annotations (may be added/removed); every other comment must survive in order",
    "a blank line adjacent to a rewritten docstring/header is part of that span's layout",
]
MON = None
CLI_EVERY = 12


def streams(ctx):
    return [("modules", ctx.scale(160, 3000)), ("hand", len(HAND)), ("header_comments", ctx.scale(24, 300)),
            ("big_modules", ctx.scale(8, 100)), ("prose_types", ctx.scale(24, 300)),
            ("quote_prose", ctx.scale(32, 400)), ("repo_files", len(corpus.py_files(max_bytes=ctx.scale(3000, 12000)))),
            ("line_ends", ctx.scale(60, 600))]


HAND = [
    'def foo(a, b=5, *args, c: int = 3, **kwargs):\n    """\n    Summary\n\n    :param a: the a\n    :type a: ```str```\n\n    :param b: the b\n    :type b: ```int```\n\n    :return: res\n    :rtype: ```bool```\n    """\n    return True\n',
    'class A(object):\n    """\n    Doc\n\n    :cvar x: an x\n    """\n    x: int = 5  # keep me\n\n    async def m(self, q=1, /, r=2, *, s: str = "t") -> None:\n        """\n        M\n\n        :param q: qq\n        :type q: ```int```\n        """\n        # inner comment\n        return None\n',
    '# leading\n\n@deco(\n    1,\n)\ndef f(\n    x,  # trailing x\n    y=2,\n):\n    """Doc.\n\n    Args:\n      x (int): the x\n      y (int): the y\n\n    Returns:\n      int:\n       the sum\n    """\n    return x + y  # add\n',
    'def g(a: int, b: str = "z") -> str:\n    return b * a\n\n\ndef h():\n    def inner(c=3):\n        """Inner.\n\n        Parameters\n        ----------\n        c : int\n            the c\n        """\n        return c\n    return inner\n',
]


def setup_shard(ctx, P):
    global MON
    MON = StepMonitor(os.path.join(REPO, "cdd"))
    MON.install()


def has_header_comment(src):
    """does some def / class header carry a trailing comment, or is it followed by a comment line before its body?"""
    import io
    import tokenize

    try:
        toks = list(tokenize.generate_tokens(io.StringIO(src).readline))
    except Exception:
        return False
    i, n = 0, len(toks)
    while i < n:
        t = toks[i]
        if t.type == tokenize.NAME and t.string in ("def", "class") and (
                i == 0 or toks[i - 1].type in (tokenize.NEWLINE, tokenize.NL, tokenize.INDENT, tokenize.DEDENT,
                                               tokenize.COMMENT) or toks[i - 1].string == "async"):
            depth, j = 0, i + 1
            while j < n:
                if toks[j].type == tokenize.OP and toks[j].string in "([{":
                    depth += 1
                elif toks[j].type == tokenize.OP and toks[j].string in ")]}":
                    depth -= 1
                elif toks[j].type == tokenize.OP and toks[j].string == ":" and depth == 0:
                    break
                j += 1
            k = j + 1
            while k < n and toks[k].type not in (tokenize.INDENT, tokenize.DEDENT, tokenize.ENDMARKER) and not (
                    toks[k].type not in (tokenize.COMMENT, tokenize.NL, tokenize.NEWLINE)):
                if toks[k].type == tokenize.COMMENT:
                    return True
                k += 1
            i = j
        i += 1
    return False


def has_defs(tree):
    return any(isinstance(n, astcmp.DEFS) for n in ast.walk(tree))


def judge(P, w, before, after, outcome, cfg, snap_diff, target_rel):
    """all refuting events of the property for one observed run"""
    P.monitor("doctrans.observed")
    feats = "style=%s,ta=%s" % (cfg["style"], cfg["ta"])

    header_comment = w.get("stream") == "header_comments" and has_header_comment(before)
    variant = w.get("variant")

    def dev(kind, what, **extra):
        mech = ""
        if header_comment and kind.startswith(("program-changed", "line-changed", "output-not-python", "comments")):
            mech = "doctrans.comment-after-definition-header|"
        # two recorded defects of how the file is read and written back, each bound to its own probe variant
        if variant == "crlf" and kind.startswith("line-changed"):
            mech = "doctrans.crlf-line-ends-rewritten-as-lf|"
        if variant == "tabs" and kind.startswith("output-not-python"):
            mech = "doctrans.tab-indented-module-output-invalid|"
        P.deviation(mech + "doctrans.%s|%s" % (kind, feats), what, dict(w, config=cfg, before=before, after=after, **extra))

    others = [p for p in fsnap.changed_paths(snap_diff) if p not in (target_rel,)]
    P.monitor("fs.snapshot.compared")
    if others:
        dev("other-file-touched", "paths other than --filename changed: %r" % others[:5], paths=others[:10])
    if outcome != "returned":
        P.count("doctrans.raised")
        if after != before:
            dev("raised-but-file-changed", "doctrans raised %s and the file's bytes changed" % outcome, outcome=outcome)
        return False
    if after == before:
        P.count("doctrans.unchanged")
        return True
    try:
        after_tree = ast.parse(after)
        compile(after, "<after doctrans>", "exec")  # (the compiler refuses more than the grammar does)
    except SyntaxError as e:
        dev("output-not-python", "file no longer parses after doctrans: %r" % (e,), error=repr(e))
        return False
    before_tree = ast.parse(before)
    P.monitor("ast.erased.compared")
    d = astcmp.erased_difference(before_tree, after_tree)
    if d:
        import re

        field = re.sub(r"\\[[^\\]]*\\]", "", d.split(":")[0]).split("/")[-1]
        dev("program-changed." + field, "AST differs beyond docstrings/annotations: %s" % d[:300], difference=d)
    cb, ca = astcmp.comments(before), astcmp.comments(after)
    P.monitor("comments.compared")
    if cb is not None and ca is not None and cb != ca:
        lost = [c for c in cb if c not in ca]
        dev("comments-differ", "comment tokens differ: before %d after %d; lost %r" % (len(cb), len(ca), lost[:3]),
            comments_before=cb, comments_after=ca)
    P.monitor("lines.compared")
    for v in astcmp.line_identity_violations(before, after, before_tree, after_tree)[:3]:
        dev("line-changed." + v["kind"], "a line outside definition headers/docstrings changed: %r" % (v,), line=v)
    return True


def run_api(path, cfg):
    return MON.run(lambda: cdd.compound.doctrans.doctrans(filename=path, docstring_format=cfg["style"],
                                                          type_annotations=cfg["ta"],
                                                          no_word_wrap=None if cfg["wrap"] else True),
                   budget=None, wall_s=120)


def run_cli(path, cfg):
    env = dict(os.environ, PYTHONPATH=REPO, PYTHONDONTWRITEBYTECODE="1")
    pr = subprocess.run([sys.executable, "-m", "cdd", "doctrans", "--filename", path, "--format", cfg["style"],
                         "--type-annotations" if cfg["ta"] else "--no-type-annotations"], env=env,
                        cwd=os.path.dirname(path), stdout=subprocess.PIPE, stderr=subprocess.PIPE, timeout=300)
    return ("returned" if pr.returncode == 0 else "raised"), pr.stderr.decode()[-300:], 0


def run_line_ends(ctx, P, stream, idx):
    """the same modules as files are found in the wild: CRLF line ends, no newline at the end, a byte-order mark, tabs for
    indentation - read and written back byte for byte (`newline=""`), so that a translated line end is seen"""
    r = ctx.rng(stream, idx)
    variant = ("crlf", "nonl", "bom", "tabs", "c_locale")[idx % 5]
    src0 = progen.gen_module(r, n_items=r.randint(1, 3), prelude=False)
    src = {"crlf": src0.replace("\n", "\r\n"), "nonl": src0.rstrip("\n"), "bom": "\ufeff" + src0,
           "tabs": src0.replace("    ", "\t"),
           # a non-ASCII character somewhere, converted by a process whose preferred encoding is ASCII (LC_ALL=C, UTF-8
           # mode off): the command may fail to read or to write the file - it must not leave it changed
           "c_locale": src0 + r.choice(('\nGREETING = "caf\u00e9"\n', "\n# na\u00efve\n", "\n\u03bb_rate = 0.5\n"))}[variant]
    try:
        compile(src.lstrip("\ufeff"), "<generated>", "exec")
    except SyntaxError:
        P.count("line_ends.variant-not-python:" + variant)  # (tabs inside a continuation line, ...): not an input
        return
    d = tempfile.mkdtemp(prefix="vcdd-c07-")
    try:
        path = os.path.join(d, "mod.py")
        cfg = {"style": r.choice(STYLES), "ta": r.random() < 0.5, "wrap": True, "via": "api"}
        with open(path, "w", newline="", encoding="utf-8") as f:
            f.write(src)
        P.case({"module": src, "cfg": cfg}, klass="line_ends/%s" % variant, sample={"variant": variant, "config": cfg,
                                                                                  "module_head": src[:200]})
        snap0 = fsnap.snapshot(d)
        if variant == "c_locale":
            env = dict(os.environ, PYTHONPATH=REPO, PYTHONDONTWRITEBYTECODE="1", LC_ALL="C", LANG="C", PYTHONUTF8="0",
                       PYTHONCOERCECLOCALE="0")
            env.pop("PYTHONIOENCODING", None)
            pr = subprocess.run([sys.executable, "-m", "cdd", "doctrans", "--filename", path, "--format", cfg["style"],
                                 "--type-annotations" if cfg["ta"] else "--no-type-annotations"], env=env, cwd=d,
                                stdout=subprocess.PIPE, stderr=subprocess.PIPE, timeout=300)
            outcome = "returned" if pr.returncode == 0 else "raised:exit-%d" % pr.returncode
            P.count("line_ends.c_locale.%s" % ("returned" if pr.returncode == 0 else "failed"))
        else:
            outcome, val, _ = run_api(path, cfg)
            if outcome == "raised":
                outcome = "raised:" + type(val).__name__
        with open(path, newline="", encoding="utf-8") as f:
            after = f.read()
        P.monitor("line-ends.observed")
        judge(P, {"stream": stream, "idx": idx, "variant": variant}, src, after, outcome, cfg,
              fsnap.diff(snap0, fsnap.snapshot(d)), "mod.py")
    finally:
        shutil.rmtree(d, ignore_errors=True)


def run_case(ctx, P, stream, idx):
    if stream == "line_ends":
        return run_line_ends(ctx, P, stream, idx)
    r = ctx.rng(stream, idx)
    if stream == "header_comments":
        # probe: comments on / right after definition headers (`def f():  # why`): bound to one recorded finding
        with progen.header_comments(0.4):
            src = progen.gen_module(r, n_items=r.randint(1, 2), prelude=False)
    elif stream == "quote_prose":
        with progen.quote_prose(0.7):  # docstrings whose prose mentions quote characters / the other triple quote
            src = progen.gen_module(r, n_items=r.randint(1, 3), prelude=False)
    elif stream == "prose_types":
        src = progen.gen_prose_typed_module(r)  # documented types that are prose, not expressions
    elif stream == "big_modules":
        src = progen.gen_module(r, n_items=r.randint(8, 14), prelude=True)  # many definitions in one file
    elif stream == "repo_files":
        # the repository's own sources (package and tests): modules nobody generated
        with open(corpus.py_files(max_bytes=ctx.scale(3000, 12000))[idx]) as f:
            src = f.read()
    else:
        src = HAND[idx] if stream == "hand" else progen.gen_module(r, n_items=r.randint(1, 3), prelude=r.random() < 0.3)
    tree = ast.parse(src)
    d = tempfile.mkdtemp(prefix="vcdd-c07-")
    try:
        path = os.path.join(d, "mod.py")
        other = os.path.join(d, "other.py")
        with open(other, "w") as f:
            f.write(src)
        configs = [(s, ta) for s in STYLES for ta in (True, False)]
        if stream != "hand":
            configs = r.sample(configs, ctx.scale(2 if stream == "repo_files" else 3, 6))
        for style, ta in configs:
            cfg = {"style": style, "ta": ta, "wrap": r.random() < 0.7}
            use_cli = stream != "hand" and (idx + len(style)) % CLI_EVERY == 0
            cfg["via"] = "cli" if use_cli else "api"
            if use_cli:
                cfg["wrap"] = True
            with open(path, "w") as f:
                f.write(src)
            P.case({"module": src, "cfg": cfg}, nontrivial=has_defs(tree), klass="%s/%s/ta=%s" % (stream, style, ta),
                   sample={"config": cfg, "bytes": len(src), "module_head": src[:300]})
            w = {"stream": stream, "idx": idx}
            before = src
            for rnd in (1, 2):
                snap0 = fsnap.snapshot(d)
                outcome, val, _ = (run_cli if use_cli else run_api)(path, cfg)
                if outcome == "raised" and not use_cli:
                    outcome = "raised:" + type(val).__name__
                with open(path) as f:
                    after = f.read()
                ok = judge(P, dict(w, round=rnd), before, after, outcome, cfg, fsnap.diff(snap0, fsnap.snapshot(d)), "mod.py")
                if not ok or after == before:
                    break
                before = after
                if rnd == 1 and r.random() < 0.5:
                    cfg = dict(cfg, style=r.choice(STYLES), ta=r.random() < 0.5)
        # 'fails midway': inject an exception inside the conversion at a seeded line event
        with open(path, "w") as f:
            f.write(src)
        style, ta = r.choice(STYLES), r.random() < 0.5
        # two stages: anywhere in the conversion, or specifically the late CST write-back stage
        late = r.random() < 0.6
        MON.failpoint_at = r.randint(1, 120) if late else r.randint(50, 4000)
        MON.failpoint_exc = RuntimeError("vcdd injected fault")
        if late:
            MON.failpoint_filter = lambda code, line: code.co_name == "doctransify_cst" or code.co_filename.endswith(
                "ast_cst_utils.py")
        else:
            MON.failpoint_filter = lambda code, line: code.co_filename.endswith(("ast_cst_utils.py", "doctrans_utils.py",
                                                                               "doctrans.py", "cst_utils.py"))
        outcome, val, _ = MON.run(lambda: cdd.compound.doctrans.doctrans(filename=path, docstring_format=style,
                                                                        type_annotations=ta, no_word_wrap=None),
                                  budget=None, wall_s=120)
        injected = MON.failpoint_at is None
        MON.failpoint_at = None
        with open(path) as f:
            after = f.read()
        if injected and outcome == "raised":
            P.monitor("failpoint.injected")
            if late:
                P.monitor("failpoint.injected.late-stage")
            if after != src:
                P.deviation("doctrans.raised-but-file-changed|injected", "an error raised midway left the file changed",
                            {"stream": stream, "idx": idx, "before": src, "after": after, "style": style, "ta": ta})
    finally:
        shutil.rmtree(d, ignore_errors=True)


if __name__ == "__main__":
    sys.exit(core.main(sys.modules[__name__]))
