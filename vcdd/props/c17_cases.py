"""Adversarial inputs for C17 (built inside the audit worker)."""

import ast
import os
from collections import OrderedDict
from copy import deepcopy

from vcdd.gen import docgen, irgen, progen

PAYLOADS = [
    "__import__('os').system('touch SENTINEL_system')",
    "open('SENTINEL_open', 'w')",
    "__import__('canary_mod')",
    "().__class__.__bases__[0].__subclasses__()",
    "exec('import canary_mod')",
    "eval('1+1')",
    "print('x')",
    "(lambda: open('SENTINEL_lambda', 'w'))()",
    "[c for c in ().__class__.__mro__]",
    "os.system('touch SENTINEL_os')",
    "subprocess.Popen(['touch', 'SENTINEL_popen'])",
    "globals()['__builtins__']",
    "type('X', (), {})()",
    "socket.socket()",
    "getattr(__import__('os'), 'system')('true')",
    "__import__('ctypes').CDLL(None)",
    # plain dotted names (no call): resolving one means importing the module it names
    "canary_mod.Hook", "canary_mod.run", "canary_mod.x", "canary_mod.sub.Thing", "os.path.join", "subprocess.Popen",
    # bare names of callables that live in `builtins` (the audit worker plants the two canaries there and records calls)
    "canary_call", "CanaryType", "exit", "breakpoint",
]
# what an add_argument(type=...) of the analysed source may name: a converter is a callable by nature
TYPE_NAMES = ("int", "str", "eval", "exec", "__import__", "canary_call", "CanaryType", "exit", "quit", "breakpoint", "print", "input",
              "help", "globals", "license")
PROSE = [
    "`__import__('os').system('id')`", "`os.system` or `subprocess.Popen`", "list of `open`", "one of `a` or `b`",
    "path/to|thing", "`eval` or `exec`", "Can be `__import__` or `print`", "'open' or \"exec\"", "list of 'os.system'",
    "tuple of `().__class__`", "number of `globals`", "whether to `exit`", "`canary_mod`.attr", "dict of `__builtins__`",
    "callable or `compile`", "a `os`.`system` thing", "`print`", "`quit`", "`exit` or `help`", "str or `input`",
]
KINDS = ("docstring_parse", "ir_emit_parse", "module_parse", "doctrans", "gen", "sync", "sync_properties",
         "docstring_prose", "selftest_input_eval", "route_docstring", "gen_routes")
# scalars for the OpenAPI ```yml block of a route docstring: YAML's python-specific tags name callables / modules
YAML_PAYLOADS = [
    '!!python/object/apply:os.system ["touch SENTINEL_yaml_system"]',
    '!!python/object/apply:builtins.open ["SENTINEL_yaml_open", "w"]',
    '!!python/object/apply:subprocess.Popen [["touch", "SENTINEL_yaml_popen"]]',
    "!!python/module:canary_mod",
    "!!python/name:canary_mod.x",
    '!!python/object/apply:builtins.eval ["__import__(\'canary_mod\')"]',
    '!!python/object/new:os.system ["true"]',
    '!!python/object/apply:importlib.import_module ["canary_mod"]',
    "!!python/name:os.system",
    "!!python/object:socket.socket {}",
]
ROUTE_TPL = '''
@rest_api.%(method)s("/api/%(lname)s/:%(pk)s")
def %(fname)s(%(pk)s):
    """
    Find one `%(name)s` or error

    ```yml
    responses:
      '200':
        description: %(p0)s
        content:
          application/json:
            schema:
              $ref: ```%(name)s```
      '404':
        description: A `ServerError` object.
        content:
          application/json:
            schema:
              $ref: ```ServerError```
    %(extra_key)s: %(p1)s
    ```

    :param %(pk)s: The primary key of `%(name)s`. Defaults to ```%(code)s```
    :type %(pk)s: ```str```

    :return: Found `%(name)s` (as a dict) or error dict
    :rtype: ```dict```
    """
    return {}
'''
ROUTE_MODEL_TPL = '''
from sqlalchemy import Column, String
from sqlalchemy.orm import declarative_base

Base = declarative_base()


class %(name)s(Base):
    """
    %(name)s table

    :cvar %(pk)s: the key. Defaults to ```%(code)s```
    """
    __tablename__ = "%(lname)s"

    %(pk)s = Column(String, primary_key=True, comment="the key", default=%(code)s)
'''
STYLES = ("rest", "google", "numpydoc")


def preload():
    """import everything the calls need *before* the hook is armed (first-import noise is not input-driven)"""
    import cdd.__main__  # noqa
    import cdd.compound.doctrans  # noqa
    import cdd.compound.gen  # noqa
    import cdd.compound.sync_properties  # noqa
    import cdd.shared.conformance  # noqa
    from vcdd.oracle import hops  # noqa
    import cdd.compound.openapi.gen_openapi  # noqa
    import cdd.compound.openapi.gen_routes  # noqa
    import cdd.compound.exmod  # noqa
    import cdd.routes.parse.bottle  # noqa
    import yaml  # noqa
    import yaml.constructor  # noqa


def adversarial_doc(r):
    k = r.random()
    if k < 0.4:
        return "%s %s" % (irgen.rand_doc(r, 2, stop=False), r.choice(PROSE))
    if k < 0.7:
        return "%s. Defaults to ```%s```" % (irgen.rand_doc(r, 2, stop=False), r.choice(PAYLOADS))
    if k < 0.85:
        return "%s %s. Defaults to %s" % (r.choice(PROSE), irgen.rand_doc(r, 2, stop=False), r.choice(PAYLOADS))
    return r.choice(PROSE) + " " + r.choice(PROSE)


def adversarial_ir(r, n=None):
    params = OrderedDict()
    for nm in r.sample(irgen.NAMES, n or r.randint(1, 4)):
        p = OrderedDict()
        p["doc"] = adversarial_doc(r)
        k = r.random()
        p["typ"] = r.choice(PAYLOADS) if k < 0.3 else ("Literal[%r, 'b']" % r.choice(PAYLOADS) if k < 0.4 else
                                                        irgen.make_type(r, r.choice(("int", "str", "optional", "list"))))
        d = r.random()
        if d < 0.35:
            p["default"] = "```%s```" % r.choice(PAYLOADS)
        elif d < 0.55:
            p["default"] = r.choice(PAYLOADS)
        elif d < 0.65:
            p["default"] = 5
        params[nm] = p
    ret = None
    if r.random() < 0.5:
        ret = OrderedDict([("return_type", OrderedDict([("doc", adversarial_doc(r)), ("typ", r.choice(PAYLOADS + ["int"])),
                                                        ("default", "```%s```" % r.choice(PAYLOADS))]))])
    return {"name": "Foo", "type": "static", "doc": adversarial_doc(r), "params": params, "returns": ret}


def adversarial_module(r, scratch):
    """module with module-level side effects, payload defaults, payload annotations and hostile docstrings"""
    lines = ["import canary_mod", "open('SENTINEL_toplevel', 'w').close()", "__import__('os').system('touch SENTINEL_mod_system')",
             "from typing import Optional, List",
             # dotted imports of an importable package: to *locate* `canary_pkg.modes` an import system runs `canary_pkg`
             r.choice(("from canary_pkg.modes import Mode", "import canary_pkg.modes", "import canary_pkg.modes as cm",
                       "from canary_pkg import modes", "from canary_pkg.deep.leaf import Leaf")), ""]
    style = r.choice(STYLES)

    def docstring(names, indent):
        dps = [(nm, r.choice(PAYLOADS + ["int", "str"]), adversarial_doc(r), Ellipsis) for nm in names]
        text, _ = docgen.compose(r, style, indent=indent, params=dps, returns=(r.choice(PAYLOADS), adversarial_doc(r)),
                                 with_footer=False, paragraphs=1)
        return text.replace("\\", "\\\\").replace('"""', "'''")

    names = r.sample(irgen.NAMES, 3)
    lines += ["class ConfigClass(object):", '    """%s"""' % docstring(names, 1)]
    for nm in names:
        lines.append("    %s: %s = %s" % (nm, r.choice(("int", "str", r.choice(PAYLOADS))), r.choice(PAYLOADS)))
    lines += ["", "    def method(self, %s):" % ", ".join("%s=%s" % (nm, r.choice(PAYLOADS)) for nm in names),
              '        """%s"""' % docstring(names, 2), "        return %s" % r.choice(PAYLOADS), ""]
    lines += ["", "def set_cli_args(argument_parser):", '    """%s"""' % docstring(["argument_parser"], 1),
              "    argument_parser.description = %r" % adversarial_doc(r)]
    for nm in names:
        if r.random() < 0.4:
            # a required option without default: nothing but the converter's name says what its value looks like
            lines.append("    argument_parser.add_argument('--%s', type=%s, help=%r, required=True)" % (
                nm, r.choice(TYPE_NAMES), r.choice(("status callback", "the hook", adversarial_doc(r)))))
            continue
        lines.append("    argument_parser.add_argument('--%s', type=%s, help=%r, default=%s)" % (
            nm, r.choice(TYPE_NAMES), adversarial_doc(r), r.choice(PAYLOADS)))
    lines += ["    return argument_parser", "", "def func(%s) -> %s:" % (
        ", ".join("%s: %s = %s" % (nm, r.choice(("int", r.choice(PAYLOADS))), r.choice(PAYLOADS)) for nm in names),
        r.choice(PAYLOADS)), '    """%s"""' % docstring(names, 1), "    return None", "", "VALUE = %s" % r.choice(PAYLOADS), ""]
    return "\n".join(lines)


def write(scratch, name, text):
    p = os.path.join(scratch, name)
    with open(p, "w") as f:
        f.write(text)
    return p


def build(i, r, scratch):
    from vcdd.oracle import hops
    import cdd.__main__
    import cdd.compound.doctrans
    import cdd.compound.gen
    import cdd.compound.sync_properties
    import cdd.docstring.parse

    canary = os.path.join(scratch, "canary_mod.py")
    if not os.path.exists(canary):
        write(scratch, "canary_mod.py", "open(%r, 'w').close()\n\n\nclass Hook(object):\n    pass\n\n\ndef run():\n    return 1\n\n\n"
                                        "x = 1\n" % os.path.join(scratch, "SENTINEL_canary_imported"))
    if not os.path.isdir(os.path.join(scratch, "canary_pkg")):
        os.makedirs(os.path.join(scratch, "canary_pkg", "deep"))
        for rel, what in (("__init__.py", "pkg"), ("modes.py", "modes"), (os.path.join("deep", "__init__.py"), "deep"),
                          (os.path.join("deep", "leaf.py"), "leaf")):
            write(scratch, os.path.join("canary_pkg", rel), "open(%r, 'w').close()\n\n\nclass Mode(object):\n    pass\n\n\n"
                  "class Leaf(object):\n    pass\n" % os.path.join(scratch, "SENTINEL_canary_pkg_%s_imported" % what))
    kind = KINDS[i % len(KINDS)]
    if kind == "docstring_parse":
        style = r.choice(STYLES)
        dps = [(nm, r.choice(PAYLOADS + PROSE), adversarial_doc(r), Ellipsis) for nm in r.sample(irgen.NAMES, r.randint(1, 4))]
        text, _ = docgen.compose(r, style, indent=r.randint(0, 1), params=dps,
                                 returns=(r.choice(PAYLOADS), adversarial_doc(r)), with_footer=r.random() < 0.2)
        kw = r.choice(({}, {"infer_type": True}, {"emit_default_doc": False}))
        return {"kind": kind, "shown": text, "call": lambda: cdd.docstring.parse.docstring(text, **kw)}
    if kind == "docstring_prose":
        style = r.choice(STYLES)
        dps = [(nm, None, r.choice(PROSE) + " " + r.choice(PROSE), Ellipsis) for nm in r.sample(irgen.NAMES, r.randint(1, 5))]
        text, _ = docgen.compose(r, style, indent=0, params=dps, returns=(None, r.choice(PROSE)), types=False,
                                 with_footer=False)
        return {"kind": kind, "shown": text, "call": lambda: cdd.docstring.parse.docstring(text, infer_type=True)}
    if kind == "ir_emit_parse":
        ir = adversarial_ir(r)

        def call():
            for fmt in hops.FORMATS:
                for style in STYLES[: 1 if fmt == "json_schema" else 3]:
                    try:
                        kw = {} if fmt == "json_schema" else {"docstring_format": style}
                        node, src = hops.emit(ir, fmt, **kw)
                    except Exception:
                        continue
                    try:
                        hops.parse(src, fmt)
                    except Exception:
                        pass
        return {"kind": kind, "shown": repr(ir), "call": call}
    if kind == "route_docstring":
        import cdd.compound.openapi.gen_openapi
        import cdd.routes.parse.bottle

        name = r.choice(("Config", "Node", "Thing"))
        benign = "Found `%s`" % name
        ps = [r.choice(YAML_PAYLOADS), r.choice(YAML_PAYLOADS + [benign, benign])]
        r.shuffle(ps)
        fields = {"method": r.choice(("get", "delete")), "name": name, "lname": name.lower(),
                  "pk": r.choice(("name", "ident", "key")), "fname": r.choice(("read", "destroy", "find_one")),
                  "p0": ps[0], "p1": ps[1], "extra_key": r.choice(("x-extra", "summary", "tags", "externalDocs")),
                  "code": r.choice(PAYLOADS)}
        route_src, model_src = ROUTE_TPL % fields, ROUTE_MODEL_TPL % fields
        ast.parse(route_src), ast.parse(model_src)
        pr, pm = write(scratch, "routes_%d.py" % i, route_src), write(scratch, "models_%d.py" % i, model_src)

        def call():
            try:
                cdd.routes.parse.bottle.bottle(ast.parse(route_src).body[0])
            except Exception:
                pass
            cdd.compound.openapi.gen_openapi.openapi_bulk(app_name="rest_api", model_paths=[pm], routes_paths=[pr])
        return {"kind": kind, "shown": route_src, "call": call}
    if kind == "gen_routes":
        # the real command on a model file whose column defaults / comments / docstring are payloads, and whose module
        # level has side effects: the model file is named by path and must be read, never imported
        name = r.choice(("Config", "Node", "Thing"))
        fields = {"name": name, "lname": name.lower(), "pk": r.choice(("name", "ident", "key")), "code": r.choice(PAYLOADS)}
        model_src = ROUTE_MODEL_TPL % fields + "\nopen(%r, 'w').close()\n" % os.path.join(scratch, "SENTINEL_model_imported")
        ast.parse(model_src)
        pm = write(scratch, "gr_models_%d.py" % i, model_src)
        routes = os.path.join(scratch, "gr_routes_%d.py" % i)
        argv = ["gen_routes", "--crud", r.choice(("CRD", "CR", "C", "R", "D")), "--app-name", "rest_api", "--model-path",
                r.choice((pm, os.path.basename(pm)[:-3])), "--model-name", name, "--routes-path", routes]
        return {"kind": kind, "shown": model_src, "allowed_writes": [routes], "call": lambda: cdd.__main__.main(argv)}
    src = adversarial_module(r, scratch)
    ast.parse(src)
    if kind == "module_parse":
        def call():
            mod = ast.parse(src)
            import cdd.argparse_function.parse
            import cdd.class_.parse
            import cdd.function.parse
            for node in mod.body:
                for parser in (cdd.class_.parse.class_, cdd.function.parse.function,
                               cdd.argparse_function.parse.argparse_ast):
                    for kw in ({}, {"infer_type": True}):
                        try:
                            parser(deepcopy(node), **(kw if parser is not cdd.argparse_function.parse.argparse_ast else {}))
                        except Exception:
                            pass
                if isinstance(node, ast.ClassDef):
                    for sub in node.body:
                        if isinstance(sub, ast.FunctionDef):
                            try:
                                cdd.function.parse.function(deepcopy(sub))
                            except Exception:
                                pass
        return {"kind": kind, "shown": src, "call": call}
    if kind == "doctrans":
        p = write(scratch, "dt_%d.py" % i, src)
        style, ta = r.choice(STYLES), r.random() < 0.5
        return {"kind": kind, "shown": src, "allowed_writes": [p],
                "call": lambda: cdd.compound.doctrans.doctrans(filename=p, docstring_format=style, type_annotations=ta,
                                                               no_word_wrap=None)}
    if kind == "gen":
        p = write(scratch, "gen_in_%d.py" % i, src)
        emit = r.choice(("class", "argparse", "sqlalchemy", "json_schema", "pydantic", "sqlalchemy_table"))
        out = os.path.join(scratch, "gen_out_%d.%s" % (i, "json" if emit == "json_schema" else "py"))
        argv = ["gen", "--name-tpl", "{name}Gen", "--input-mapping", p, "--parse", r.choice(("class", "infer", "function")),
                "--emit", emit, "-o", out] + (["--emit-and-infer-imports"] if r.random() < 0.5 else [])
        if r.random() < 0.5:
            # imports taken from the analysed file itself, named the way a user in that directory would: a bare
            # file name whose stem is importable (cwd is on sys.path) - it must be read, never imported
            argv += ["--imports-from-file", r.choice((os.path.basename(p), p, "./" + os.path.basename(p)))]
        return {"kind": kind, "shown": src, "allowed_writes": [out], "call": lambda: cdd.__main__.main(argv)}
    if kind == "sync":
        pc, pf, pa = (write(scratch, "sync_%s_%d.py" % (k, i), src) for k in "cfa")
        argv = ["sync", "--class", pc, "--class-name", "ConfigClass", "--function", pf, "--function-name",
                "ConfigClass.method", "--argparse-function", pa, "--argparse-function-name", "set_cli_args", "--truth",
                r.choice(("class", "function", "argparse_function"))]
        return {"kind": kind, "shown": src, "allowed_writes": [pc, pf, pa], "call": lambda: cdd.__main__.main(argv)}
    if kind in ("sync_properties", "selftest_input_eval"):
        pi, po = write(scratch, "sp_in_%d.py" % i, src), write(scratch, "sp_out_%d.py" % i, src)
        evalmode = kind == "selftest_input_eval"
        argv = ["sync_properties", "--input-filename", pi, "--input-param", "VALUE" if evalmode else r.choice(
            ("ConfigClass.%s" % src.split("class ConfigClass")[1].split(":")[0], "VALUE", "func.x")),
                "--output-filename", po, "--output-param", "func.%s" % r.choice(("a", "b"))] + (["--input-eval"] if evalmode else [])
        # choose real names
        names = [l.strip().split(":")[0] for l in src.split("\n") if l.startswith("    ") and ": " in l and "=" in l
                 and not l.strip().startswith(("argument_parser", '"""', ":", "def"))][:3]
        if names:
            argv[4] = "VALUE" if evalmode else "ConfigClass.%s" % names[0]
            argv[8] = "func.%s" % names[-1]
        if not evalmode and r.random() < 0.35:
            # a top-level name the static lookup cannot resolve (bound under try / if / with, by unpacking, by import):
            # the command may refuse, it must not fall back to running the module
            extra = ("\ntry:\n    GUARDED = __import__('os').getcwd()\nexcept Exception:\n    GUARDED = None\n"
                     "A_T, B_T = ('a', 'b')\nif True:\n    COND = [1, 2]\nfrom os import sep as IMPORTED\n"
                     "open(%r, 'w').close()\n" % os.path.join(scratch, "SENTINEL_module_level_ran"))
            src2 = src + extra
            ast.parse(src2)
            pi = write(scratch, "sp_in_%d.py" % i, src2)
            argv[2], argv[4] = pi, r.choice(("GUARDED", "A_T", "B_T", "COND", "IMPORTED", "MISSING_NAME"))
        return {"kind": kind, "shown": src, "allowed_writes": [po], "expect_fire": evalmode,
                "call": lambda: cdd.__main__.main(argv)}
    raise ValueError(kind)
