"""C18 — every public module imports cleanly on its own, and in any order.

Monitor M6 (vcdd/monitors/importer.py): a fresh interpreter per first module; ordered pairs are
explored by forking after the first import. Oracle: every import succeeds, and the public names of
m1 and m2 after importing (m1, m2) equal those after (m2, m1).
"""

import json
import os
import subprocess
import sys
import tempfile

from vcdd import REPO, VERIF_ROOT, core

PID = "C18"
RULE = ("every non-test module of the package as first import in a fresh interpreter (exhaustive), and ordered pairs "
        "(m1, m2) explored by fork after importing m1 (quick: a seeded sample of unordered pairs, both orders; "
        "thorough: all ordered pairs); a case = one import history; distinct by construction; non-trivial = all")
REQUIRED_MONITORS = ("single.import", "pair.import", "pair.names.compared", "pair.loaded-modules.compared")
ASSUMPTIONS = ["os.fork() after importing m1 is equivalent to a fresh interpreter whose import history is exactly [m1]",
               "public names = the entries of __all__ that are bound, when __all__ is defined, else the module's non-underscore globals"]
GRACE_S = 300


def modules():
    out = []
    root = os.path.join(REPO, "cdd")
    for d, dirs, fs in os.walk(root):
        dirs[:] = sorted(x for x in dirs if x not in ("tests", "__pycache__"))
        for f in sorted(fs):
            if f.endswith(".py"):
                rel = os.path.relpath(os.path.join(d, f), REPO)[:-3].replace(os.sep, ".")
                if rel.endswith(".__init__"):
                    rel = rel[: -len(".__init__")]
                out.append(rel)
    return sorted(set(out))


MODS = None


def mods():
    global MODS
    if MODS is None:
        MODS = modules()
    return MODS


def EXHAUSTIVE(ctx):
    n = len(mods())
    return {"what": "first import of each of the %d non-test modules%s" % (
        n, "; all %d ordered pairs" % (n * (n - 1)) if ctx.thorough else ""), "modules": n}


def streams(ctx):
    return [("first", len(mods()))]


def partners(ctx, m1):
    ms = mods()
    if ctx.thorough:
        return [m for m in ms if m != m1]
    # quick: a seeded symmetric sample — pair {a,b} chosen iff rng(min,max) says so, so both orders are explored
    out = []
    for m2 in ms:
        if m2 == m1:
            continue
        a, b = sorted((m1, m2))
        if ctx.rng("pair", a, b).random() < ctx.scale(0.5, 1.0):
            out.append(m2)
    return out


def run_case(ctx, P, stream, idx):
    m1 = mods()[idx]
    m2s = partners(ctx, m1)
    env = dict(os.environ, PYTHONPATH=REPO, PYTHONDONTWRITEBYTECODE="1", VCDD_PKG="cdd")
    env.pop("PYTHONHASHSEED", None)
    cwd = tempfile.mkdtemp(prefix="vcdd-c18-")
    try:
        pr = subprocess.run([sys.executable, os.path.join(VERIF_ROOT, "vcdd", "monitors", "importer.py"), m1] + m2s,
                            env=env, cwd=cwd, stdout=subprocess.PIPE, stderr=subprocess.PIPE, timeout=600)
    finally:
        os.rmdir(cwd)
    lines = [json.loads(l) for l in pr.stdout.decode().splitlines() if l.startswith("{")]
    if not lines:
        P.error("importer produced nothing for %s: %s" % (m1, pr.stderr.decode()[-500:]))
        return
    for rec in lines:
        if rec["kind"] == "single":
            P.monitor("single.import")
            P.bulk(1, 1, klass="first-import", sample={"history": [m1], "status": rec["status"],
                                                        "import_chain_head": rec["chain"][:8]})
            if rec["status"] != "ok":
                P.deviation("import.first-import-fails|%s" % m1, "import %s in a fresh interpreter: %s" % (m1, rec["error"]),
                            {"stream": stream, "idx": idx, "history": [m1], "error": rec["error"], "chain": rec["chain"]})
        else:
            P.monitor("pair.import")
            P.bulk(1, 1, klass="ordered-pair")
            if rec["status"] != "ok":
                if rec.get("status_m1") == "ok":  # m2 fails only after m1 (else already reported as a single)
                    P.deviation("import.second-import-fails|%s" % rec["m2"],
                                "import %s after %s: %s" % (rec["m2"], m1, rec["error"]),
                                {"stream": stream, "idx": idx, "history": [m1, rec["m2"]], "error": rec["error"]})
            P.notes.setdefault("pairs", {})["%s>%s" % (m1, rec["m2"])] = [rec.get("names_m1"), rec.get("names_m2"),
                                                                          rec.get("loaded")]


def finish_shard(ctx, P):
    pass


def merge_pairs(P):
    """order-independence of bound public names: compare (a,b) with (b,a)"""
    pairs = P.notes.pop("pairs", {})
    for key, (n1, n2, loaded) in pairs.items():
        a, b = key.split(">")
        other = pairs.get("%s>%s" % (b, a))
        if other is None or a > b:
            continue
        P.monitor("pair.names.compared")
        o_nb, o_na, o_loaded = other  # after (b, a): names of b (as m1), names of a (as m2)
        # every other package module the two imports pulled in binds the same public names in both orders
        if loaded and o_loaded:
            P.monitor("pair.loaded-modules.compared")
            third = sorted(m for m in set(loaded) & set(o_loaded) if loaded[m] != o_loaded[m] and m not in (a, b))
            if third:
                P.deviation("import.order-dependent-names-of-loaded-module|%s" % third[0],
                            "public names of %s differ between import orders (%s,%s) and (%s,%s)" % (third[:3], a, b, b, a),
                            {"stream": "first", "idx": mods().index(a), "a": a, "b": b, "modules": third[:10]})
        if n1 != o_na or n2 != o_nb:
            P.deviation("import.order-dependent-names|%s,%s" % (a, b),
                        "public names differ between import orders (%s,%s) and (%s,%s)" % (a, b, b, a),
                        {"stream": "first", "idx": mods().index(a), "a": a, "b": b,
                         "names_a": [n1, o_na], "names_b": [n2, o_nb]})


if __name__ == "__main__":
    # the pair comparison needs the merged view of all shards: hook into conclude
    _orig_conclude = core.conclude

    def conclude(module, ctx, P, inconclusive, t0):
        merge_pairs(P)
        return _orig_conclude(module, ctx, P, inconclusive, t0)

    core.conclude = conclude
    sys.exit(core.main(sys.modules[__name__]))
