"""C02 — class / pydantic / function / argparse emit -> render -> re-read -> parse round trip.

Monitor: M1 postconditions on the four real emitters. Each renders the returned AST with the
repository's `to_code`, re-reads the *text* with `ast.parse`, runs the matching real parser and
compares with the snapshotted interface under the documented per-format normalisations only
(function: a parameter without default is shown as `=None`; argparse: the return entry is kept
only when it has a default). Rendering must also be stable (unparse . parse . unparse).
"""

import ast
import sys
from copy import deepcopy
from itertools import product

import cdd.argparse_function.emit
import cdd.argparse_function.parse
import cdd.class_.emit
import cdd.class_.parse
import cdd.function.emit
import cdd.function.parse
import cdd.pydantic.emit
import cdd.pydantic.parse
from cdd.shared.source_transformer import to_code

from vcdd import core
from vcdd.gen import irgen
from vcdd.monitors import contracts
from vcdd.oracle import hops
from vcdd.oracle.ircmp import cmp_ir

PID = "C02"
RULE = ("signature-legal interfaces (defaults form a suffix) from the class matrix and seeded random generation, "
        "emitted as class / pydantic / function (type_annotations x emit_as_kwonlyargs) / argparse x 3 docstring "
        "styles x emit_default_doc; a case = (interface, format, flags); distinct by content digest; non-trivial = "
        "at least one parameter")
REQUIRED_MONITORS = ("class.emit.post", "pydantic.emit.post", "function.emit.post", "argparse.emit.post",
                     "function.type.checked")
ASSUMPTIONS = [
    "normalisations applied: function parameter without default == None marker; argparse return entry only compared "
    "when it has a default; descriptions modulo whitespace / terminal full stop / 'Defaults to' clause",
    "descriptions avoid cdd's type-hint trigger words",
]
STYLES = ("rest", "google", "numpydoc")
CUR = {}
CORE_TKINDS = ("int", "float", "str", "bool", "optional", "literal", "list", "union", "dotted")
CORE_DKINDS = ("absent", "int", "negint", "zero", "float", "negfloat", "smallfloat", "bool", "str", "strspace",
               "strtilde")


def _matrix():
    import random

    out, r = [], random.Random(0)
    for tk in CORE_TKINDS:
        adm = set()
        for _ in range(8):
            adm.update(irgen.admissible_default_kinds(irgen.make_type(r, tk)))
        for dk in CORE_DKINDS:
            if dk in adm:
                for n, pos in ((1, 0), (2, 0), (2, 1), (3, 1), (3, 2)):
                    out.append((tk, dk, n, pos))
    return out


MATRIX = _matrix()


def streams(ctx):
    return [("matrix", len(MATRIX)), ("random", ctx.scale(200, 5000)), ("argparse_return", ctx.scale(150, 3000)),
            ("longdoc", ctx.scale(80, 1500)), ("shapes", ctx.scale(150, 3000)), ("big", ctx.scale(30, 500)), ("similar", ctx.scale(100, 1500)), ("hardstr", ctx.scale(120, 2000)),
            ("body_wins", ctx.scale(150, 2500)), ("few", ctx.scale(120, 2000))]


def _snap_ir(intermediate_repr):
    return deepcopy(intermediate_repr)


def _expect(ir, fmt):
    exp = deepcopy(ir)
    if fmt == "function":
        for p in exp["params"].values():
            p.setdefault("default", irgen.NONE_STR)
    if fmt == "argparse":
        ret = (exp.get("returns") or {}).get("return_type")
        if ret is not None and "default" not in ret:
            exp["returns"] = None
    return exp


def observe(fmt, ir, node, cfg):
    P = CUR.get("P")
    if P is None or CUR.get("busy"):
        return True
    CUR["busy"] = True
    try:
        P.monitor(fmt + ".emit.post")
        if not ir.get("params") and not ir.get("returns"):
            return True
        try:
            src = to_code(node)
            tree = ast.parse(src)
        except Exception as e:
            _dev(P, fmt, ir, cfg, {"where": "render", "field": "raises", "how": type(e).__name__, "got": repr(e)[:200],
                                   "tkind": "-", "dkind": "-"}, None)
            return True
        # rendering is stable: text -> AST -> text -> AST
        again = ast.parse(to_code(tree))
        P.monitor("render.stable")
        if ast.dump(again) != ast.dump(tree):
            _dev(P, fmt, ir, cfg, {"where": "render", "field": "unstable", "how": "ast-differs", "tkind": "-",
                                   "dkind": "-"}, src)
        try:
            back = hops.parse(src, fmt)
            P.monitor(fmt + ".parse.called")
        except Exception as e:
            _dev(P, fmt, ir, cfg, {"where": "parse", "field": "raises", "how": type(e).__name__, "got": repr(e)[:200],
                                   "tkind": "-", "dkind": "-"}, src)
            return True
        # (the interface's own description: compared where the format keeps it apart from the parameter section - the
        # argparse description assignment - and for ReST docstrings; for indented Google / NumPy docstrings the recorded
        # finding `indented-docstring-misparsed` folds the section into it)
        for d in cmp_ir(_expect(ir, fmt), back, ir_doc=fmt == "argparse" or cfg.get("style") == "rest"):
            _dev(P, fmt, ir, cfg, d, src)
        if fmt == "function":
            # the receiver (self / cls) is not a parameter of the interface; the parser reports it as the "type"
            P.monitor("function.type.checked")
            if back.get("type") != cfg["ft"]:
                _dev(P, fmt, ir, cfg, {"where": "function", "field": "type", "how": "%s->%s" % (cfg["ft"], back.get("type")),
                                       "exp": cfg["ft"], "got": back.get("type"), "tkind": "-", "dkind": "-"}, src)
        return True
    finally:
        CUR["busy"] = False


def post_class(intermediate_repr, docstring_format, emit_default_doc, word_wrap, result, OLD):
    return observe("class", OLD.ir, result, {"style": docstring_format, "edd": emit_default_doc, "ww": word_wrap})


def post_pydantic(intermediate_repr, docstring_format, emit_default_doc, word_wrap, result, OLD):
    return observe("pydantic", OLD.ir, result, {"style": docstring_format, "edd": emit_default_doc, "ww": word_wrap})


def post_function(intermediate_repr, function_type, docstring_format, emit_default_doc, type_annotations,
                  emit_as_kwonlyargs, word_wrap, result, OLD):
    return observe("function", OLD.ir, result, {"style": docstring_format, "edd": emit_default_doc, "ww": word_wrap,
                                                "ta": type_annotations, "kwonly": emit_as_kwonlyargs,
                                                "ft": function_type or OLD.ir.get("type") or "static"})


def post_argparse(intermediate_repr, docstring_format, emit_default_doc, word_wrap, wrap_description, result, OLD):
    return observe("argparse", OLD.ir, result, {"style": docstring_format, "edd": emit_default_doc, "ww": word_wrap,
                                                "wd": wrap_description})


def single_member_literal(typ):
    import re

    m = re.match(r"^(?:Optional\[)?Literal\[(.*?)\]\]?$", typ or "")
    if not m:
        return False
    try:
        v = ast.literal_eval("(%s,)" % m.group(1))
    except Exception:
        return False
    return len(v) == 1


NARROWED = ("optional->", "union->", "literal->", "list->", "dotted->", "other->")


def classify(fmt, ir, cfg, d):
    """mechanism key from shapes only (format, style, flags, field, direction, type/default kind)"""
    style, edd, ta = cfg.get("style"), cfg.get("edd"), cfg.get("ta")
    where, field, how, tk, dk = d["where"], d["field"], d["how"], d["tkind"], d["dkind"]
    got = d.get("got")
    generic = "%s.%s.%s.%s" % (fmt, where, field, how)
    detail = "style=%s,edd=%s,ta=%s,kw=%s,t=%s,d=%s" % (style, edd, ta, cfg.get("kwonly"), tk, dk)
    mech = None
    if fmt == "argparse":
        if where == "return" and field == "default" and how == "value" and got == repr("'%s'" % (d.get("exp") or "")[1:-1]):
            mech = "argparse.return-default-requoted"
        elif where == "param" and field == "default" and how.startswith("gained:") and dk == "absent":
            mech = "argparse.required-without-default-gets-zero"
        elif where == "param" and field == "typ" and tk == "bool" and dk == "absent" and how == "bool->optional":
            mech = "argparse.bool-becomes-optional"
        elif where == "param" and field == "typ" and tk in ("union", "dotted") and how.startswith((
                "union->", "dotted->str")):
            mech = "argparse.union-or-dotted-type-narrowed"
        elif where == "param" and field == "typ" and tk == "list" and dk == "absent" and how == "list->optional":
            mech = "argparse.list-without-default-becomes-optional"

    else:
        types_in_docstring = fmt == "function" and ta is False
        if style == "numpydoc" and not types_in_docstring and field == "doc" and got is None:
            # class/pydantic/annotated function: types live in annotations => NumPy docstring without types
            mech = "docstring.numpydoc.no-types.names-dropped"
        elif style in ("google", "numpydoc") and where == "return" and field == "default" and how.startswith(
                "gained") and edd:
            mech = "docstring.google-numpydoc.return-gets-default"
        elif style in ("google", "numpydoc") and (
                (where == "return" and field == "doc")
                or (where == "return" and field == "typ" and (how == "lost" or how.startswith(NARROWED)
                                                              or how.endswith("->optional")))
                or (where == "returns" and how == "lost")
                or (style == "numpydoc" and types_in_docstring and where == "param" and (
                    (field == "typ" and (how == "lost" or how.startswith(NARROWED))) or field == "doc"))):
            mech = "docstring.google-numpydoc.indented-docstring-misparsed"
        elif fmt == "function" and edd and dk == "none" and where == "param" and (
                (field == "default" and how == "value" and got == repr("(None)"))
                or (field == "typ" and how == "optional->optional")):
            mech = "docstring.none-default-becomes-text"
    if mech is not None:
        return mech + "|" + generic + "," + detail
    return generic + "|" + detail


def _dev(P, fmt, ir, cfg, d, text):
    P.deviation(classify(fmt, ir, cfg, d),
                "%s: %s %s %s: expected %r got %r" % (fmt, d["where"], d["field"], d["how"], d.get("exp"), d.get("got")),
                {"stream": CUR.get("stream"), "idx": CUR.get("idx"), "format": fmt, "config": cfg, "ir": ir,
                 "emitted": text, "diff": d})


def setup_shard(ctx, P):
    snap = [("ir", _snap_ir)]
    contracts.attach(cdd.class_.emit, "class_", post_class, snap)
    contracts.attach(cdd.pydantic.emit, "pydantic", post_pydantic, snap)
    contracts.attach(cdd.function.emit, "function", post_function, snap)
    contracts.attach(cdd.argparse_function.emit, "argparse_function", post_argparse, snap)


def gen_case(ctx, stream, idx):
    r = ctx.rng(stream, idx)
    if stream == "matrix":
        tk, dk, n, pos = MATRIX[idx]
        return irgen.matrix_ir(r, tk, dk, n, pos, with_return=idx % 2 == 1)
    if stream == "random":
        return irgen.rand_ir(r, type_kinds=CORE_TKINDS, default_kinds=CORE_DKINDS, nparams=r.randint(1, 6))
    if stream == "shapes":
        # nested / single-member / spaced-member types, delimiter characters in str defaults, punctuation in prose
        return irgen.rand_ir(r, type_kinds=CORE_TKINDS + ("nested", "nested", "str", "literaldq"), nparams=r.randint(1, 6),
                             default_kinds=CORE_DKINDS + ("strodd", "strodd"), doc_kinds=("plain", "punct", "punct"))
    if stream == "body_wins":
        # a multi-word str default behind a description long enough for the wrap column to fall inside the default's
        # text in the docstring: the target also records the default in code (class attribute, signature, add_argument)
        # and that record is the one that counts
        ir = irgen.rand_ir(r, type_kinds=("str", "str", "int"), nparams=r.randint(1, 3), default_kinds=("strspace", "int"),
                           all_defaults=True, with_return=False)
        for p in ir["params"].values():
            if p["typ"] == "str":
                p["default"] = r.choice(("x y", "nightly build of the day", "hello brave new world", "a b c d e f g"))
                p["doc"] = irgen.rand_doc(r, r.randint(9, 16), stop=False)
        return ir
    if stream == "few":
        # the small end of the domain: no parameter at all (an empty signature is legal) or exactly one, with and without
        # a return entry
        return irgen.rand_ir(r, type_kinds=CORE_TKINDS, default_kinds=CORE_DKINDS, nparams=r.choice((0, 0, 1)),
                             with_return=r.random() < 0.75)
    if stream == "similar":
        return irgen.similar_ir(r, type_kinds=CORE_TKINDS, default_kinds=CORE_DKINDS)
    if stream == "big":
        return irgen.rand_ir(r, type_kinds=CORE_TKINDS, default_kinds=CORE_DKINDS, nparams=r.randint(10, 24), max_params=24,
                             doc_kinds=("plain", "plain", "punct"))
    if stream == "longdoc":
        return irgen.rand_ir(r, type_kinds=CORE_TKINDS, default_kinds=CORE_DKINDS, nparams=r.randint(1, 4),
                             doc_kinds=("long", "long", "plain"))
    if stream == "probe":
        return irgen.rand_ir(r, nparams=r.randint(0, 4), default_kinds=("none", "code", "emptystr", "absent", "int"),
                             return_default=r.random() < 0.3)
    if stream == "argparse_return":
        # argparse keeps a return entry only when it has a default (a code expression): exercise that path, with
        # descriptions that contain commas (the docstring line is `:return: argument_parser, <description>`) or are empty
        ir = irgen.rand_ir(r, type_kinds=("int", "float", "str", "bool", "literal"), default_kinds=("int", "float", "str", "bool"),
                           nparams=r.randint(1, 3), all_defaults=True, with_return=True)
        rp = ir["returns"]["return_type"]
        rp["typ"] = r.choice(("int", "float", "bool", "np.ndarray"))
        rp["default"] = {"int": "```5```", "float": "```2.5```", "bool": "```True```", "np.ndarray": "```np.empty(0)```"}[rp["typ"]]
        rp["doc"] = r.choice(("%s", "%s, or zero when %s", "%s, %s, and %s", "a, b")).replace("%s", "{}").format(
            *(irgen.rand_doc(r, 2, stop=False) for _ in range(3)))
        if r.random() < 0.15:
            rp["doc"] = ""
        return ir
    if stream == "hardstr":
        # str defaults with a double quote, a backslash, a backtick, or different quote characters at the two ends: prose
        # cannot carry them (recorded finding of the docstring layer), every carrier that writes the default as code must
        ir = irgen.rand_ir(r, type_kinds=("str", "str", "int", "optional"), default_kinds=("strbad", "strbad", "int", "str"),
                           nparams=r.randint(1, 4), all_defaults=True, with_return=False)
        ir["params"][r.choice(("quoted", "sep", "motto"))] = {"doc": irgen.rand_doc(r, stop=False), "typ": "str",
                                                               "default": r.choice(irgen.STRBAD)}
        return ir
    raise ValueError(stream)


def configs():
    for style, edd in product(STYLES, (True, False)):
        yield "class", {"docstring_format": style, "emit_default_doc": edd}
        yield "pydantic", {"docstring_format": style, "emit_default_doc": edd}
        yield "argparse", {"docstring_format": style, "emit_default_doc": edd}
        for ta, kw in product((True, False), (True, False)):
            yield "function", {"docstring_format": style, "emit_default_doc": edd, "type_annotations": ta,
                               "emit_as_kwonlyargs": kw}


# (function_type argument, "type" of the description used when the argument is None)
FUNCTION_TYPES = (("static", None), ("self", None), ("cls", None), (None, "static"), (None, "self"), (None, "cls"))


def run_case(ctx, P, stream, idx):
    ir = gen_case(ctx, stream, idx)
    CUR.update(P=P, stream=stream, idx=idx)
    sh = irgen.shape(ir)
    ir0 = ir
    for n, (fmt, kw) in enumerate(configs()):
        if stream == "argparse_return" and (fmt != "argparse" or kw["docstring_format"] != "rest"):
            continue  # (Google/NumPy argparse docstrings with a return default are rejected by the unchanged parser)
        if stream == "shapes" and fmt == "argparse" and any(p["typ"] in irgen.NESTED_TYPES for p in ir0["params"].values()):
            continue  # argparse has no notation for compound types (they are narrowed: C02's documented findings)
        if stream == "hardstr" and kw["emit_default_doc"]:
            continue  # (the default would be written into prose as well)
        ir = ir0
        if fmt == "function":
            ft, ir_type = FUNCTION_TYPES[(idx + n) % len(FUNCTION_TYPES)]
            kw = dict(kw, function_type=ft)
            if ir_type is not None:
                ir = dict(deepcopy(ir0), type=ir_type)
        # word_wrap alternates (descriptions of the `longdoc` stream exceed the wrap width)
        kw = dict(kw, word_wrap=(idx + n) % 2 == 0)
        if fmt == "argparse":
            kw["wrap_description"] = (idx + n) % 3 == 0
        P.case({"ir": ir, "fmt": fmt, "kw": kw}, nontrivial=bool(ir["params"]), klass="%s/%s" % (stream, fmt),
               sample={"format": fmt, "options": kw, "shape": sh, "ir": ir})
        try:
            hops.emit(ir, fmt, **kw)
        except Exception as e:
            _dev(P, fmt, ir, {"style": kw["docstring_format"], "edd": kw["emit_default_doc"],
                              "ta": kw.get("type_annotations"), "kwonly": kw.get("emit_as_kwonlyargs")},
                 {"where": "emit", "field": "raises", "how": type(e).__name__, "got": repr(e)[:200], "tkind": "-",
                  "dkind": "-"}, None)
    CUR.update(P=None)


if __name__ == "__main__":
    sys.exit(core.main(sys.modules[__name__]))
