"""C17 — analysing source never executes it or touches anything but the output.

Monitor M2 (vcdd/monitors/auditrun.py): a `sys.addaudithook` observer in a fresh subprocess per
shard, armed only during each real cdd call on an adversarial input; plus sentinel files the
payloads would create. Violating events: exec of an untrusted code object containing CALL / IMPORT
/ MAKE_FUNCTION / STORE opcodes (the docstring parser's type-name probe `eval(typ)` is allowed
exactly as a pure name / attribute / subscript expression), import of a module that belongs
neither to the package, the stdlib nor site-packages, process / network / ctypes events, and
write-mode opens or fs mutations on anything but the named output.
"""

import json
import os
import shutil
import subprocess
import sys
import tempfile

from vcdd import REPO, VERIF_ROOT, core
from vcdd.props.c17_cases import KINDS

PID = "C17"
RULE = ("adversarial docstrings, interface descriptions and modules (payload calls, __import__, dunder chains, canary "
        "imports, module-level side effects, prose engineered for the type guesser) fed to: docstring parser, every "
        "emitter + parser, function/class/argparse parsers on module nodes, doctrans, gen from file, sync, "
        "sync_properties (no eval); a case = one monitored call; distinct by construction (seeded index); non-trivial = "
        "every case (all carry payloads); kinds: %s" % ", ".join(KINDS))
REQUIRED_MONITORS = ("audit.call.monitored", "audit.selftest.fired", "audit.probe.exec.seen")
ASSUMPTIONS = ["--input-eval (explicit opt-in) is exercised only as a self-test that the monitor fires",
               "`gen --prepend` (explicit opt-in import execution) is not part of the monitored calls",
               "modules are preloaded before the hook is armed: first-import events of cdd itself are not input-driven"]
CHUNK = 45
BUDGET_S = {"quick": 300, "thorough": 3000}


def streams(ctx):
    return [("audit", ctx.scale(64, 500))]


def run_case(ctx, P, stream, idx):
    scratch = tempfile.mkdtemp(prefix="vcdd-c17-")
    try:
        env = dict(os.environ, PYTHONPATH="%s:%s" % (REPO, VERIF_ROOT), PYTHONDONTWRITEBYTECODE="1")
        pr = subprocess.run([sys.executable, "-m", "vcdd.monitors.auditrun", str(ctx.seed), str(idx * CHUNK), str(CHUNK),
                             scratch], env=env, cwd=scratch, stdout=subprocess.PIPE, stderr=subprocess.PIPE, timeout=900)
        recs = [json.loads(l[5:]) for l in pr.stdout.decode("utf8", "replace").splitlines() if l.startswith("CASE ")]
        if len(recs) < CHUNK:
            P.error("audit worker produced %d/%d records: %s" % (len(recs), CHUNK, pr.stderr.decode()[-600:]))
        leftovers = [f for f in os.listdir(scratch) if f.startswith("SENTINEL")]
    finally:
        shutil.rmtree(scratch, ignore_errors=True)
    for rec in recs:
        if "harness_error" in rec:
            P.error("case %s: %s" % (rec["idx"], rec["harness_error"]))
            continue
        kind = rec["kind"]
        P.bulk(1, 1, klass=kind, sample={"kind": kind, "outcome": rec["outcome"], "input_head": rec["input"][:300]})
        P.count("outcome." + rec["outcome"].split(":")[0])
        if rec.get("probe_execs"):
            P.monitor("audit.probe.exec.seen", rec["probe_execs"])
        if rec["expect_fire"]:
            if any(e["event"] == "exec" for e in rec["events"]) or rec["sentinels"]:
                P.monitor("audit.selftest.fired")
            else:
                P.count("selftest.silent." + rec["outcome"])
            continue
        P.monitor("audit.call.monitored")
        for e in rec["events"]:
            P.deviation("side-effect.%s.%s" % (kind, e["event"]), "%s: %s during analysis" % (kind, json.dumps(e)[:300]),
                        {"stream": stream, "idx": idx, "case": rec["idx"], "event": e, "input": rec["input"]})
        for s in rec["sentinels"]:
            P.deviation("side-effect.%s.sentinel" % kind, "%s: sentinel file %s was created" % (kind, s),
                        {"stream": stream, "idx": idx, "case": rec["idx"], "sentinel": s, "input": rec["input"]})


if __name__ == "__main__":
    sys.exit(core.main(sys.modules[__name__]))
