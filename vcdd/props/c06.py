"""C06 — emitted JSON-schema is valid, self-consistent and round-trips.

Monitor: M1 postcondition on the real `cdd.json_schema.emit.json_schema` with reference
validators (M8): json.dumps, jsonschema.Draft202012Validator (meta-schema + instance validation),
`re` for the Literal pattern, and the real `cdd.json_schema.parse.json_schema` for the way back.
"""

import ast
import json
import re
import sys
from copy import deepcopy

import cdd.json_schema.emit
import cdd.json_schema.parse

from vcdd import core
from vcdd.gen import irgen
from vcdd.monitors import contracts
from vcdd.oracle.ircmp import cmp_ir

import jsonschema

PID = "C06"
RULE = ("interfaces with 0..8 parameters over int/float/str/bool/dict/list, Optional[those], Literal[str..], with and "
        "without descriptions and return entry (class matrix + seeded random); a case = one emitted schema; distinct "
        "by content digest; non-trivial = at least one property")
REQUIRED_MONITORS = ("json_schema.emit.post", "metaschema.checked", "required.checked", "roundtrip.checked",
                     "default.validated", "pattern.checked")
ASSUMPTIONS = [
    "'a Literal becomes a pattern accepting exactly its members' is read with re.fullmatch (JSON-schema `pattern` is "
    "an unanchored search; the emitted form `a|b` is pinned by the mock schema and by the parser that splits on '|'); "
    "evidence reports pattern_unanchored=true",
    "Literal members are compared as a set on the way back (the emitter sorts them)",
    "a None default of an Optional parameter cannot be written as a default that validates against its own (non-null) "
    "property schema; the emitter documents that it is 'inferred as null from the type' (the property is not "
    "required), so on the way back `Optional[T] = None` and `Optional[T]` without default are the same entry; a None "
    "marker that *is* emitted as a default is checked (and rejected) by the default-validates conjunct",
]
CUR = {}
T_KINDS = ("int", "float", "str", "bool", "dict", "listbare", "optional", "literal")
D_KINDS = ("absent", "int", "negint", "zero", "float", "negfloat", "smallfloat", "bool", "str", "strspace", "strtilde",
           "strdot", "emptystr", "none")


def streams(ctx):
    return [("random", ctx.scale(30000, 120000)), ("empty", 3)]


def gen_case(ctx, stream, idx):
    r = ctx.rng(stream, idx)
    if stream == "empty":
        ir = irgen.rand_ir(r, nparams=idx, type_kinds=("int", "str"), with_return=False)
        ir["doc"] = ""
        return ir
    if idx % 6 == 5:
        return irgen.similar_ir(r, type_kinds=("int", "float", "str", "bool", "literal", "optional"), default_kinds=D_KINDS)
    doc_kinds = ("plain", "plain", "stop", "none", "multiline", "punct")
    ir = irgen.rand_ir(r, nparams=r.randint(0, 8), max_params=8, type_kinds=T_KINDS, default_kinds=D_KINDS,
                       suffix_defaults=False, doc_kinds=doc_kinds)
    for p in ir["params"].values():
        # Optional[dict]/Optional[list] are in the domain too
        if p["typ"] == "Optional[str]" and r.random() < 0.3:
            p["typ"] = r.choice(("Optional[dict]", "Optional[list]"))
            p.pop("default", None)
    rr = __import__("random").Random(r.random())
    if ir.get("returns") and (ir["returns"]["return_type"].get("doc") or "").strip() and rr.random() < 0.5:
        # (a return entry without description has no sentence to announce a default in)
        # what the interface returns by default: the return entry travels as text inside the schema's description, so its
        # default is read back from prose - before the line that says its type
        typ, val = rr.choice((("float", -0.5), ("float", -2.25), ("float", -1e-07), ("Optional[float]", -10.0), ("float", 0.5),
                              ("float", 2.0), ("int", 3), ("int", -3), ("int", 0), ("bool", False), ("bool", True),
                              ("str", "left"), ("Optional[int]", -1)))
        ir["returns"]["return_type"].update({"typ": typ, "default": val})
    k_ = r.random()
    if k_ < 0.25:
        ir["doc"] = ""
    elif k_ < 0.6:
        from vcdd.gen import docgen
        ir["doc"] = docgen.header(r, r.randint(1, 3))  # several lines / paragraphs of prose about the interface itself
        if rr.random() < 0.3 and "\n" in ir["doc"]:
            # a markdown hard line break: two blanks at the end of a line that is not the last
            lines_ = ir["doc"].split("\n")
            k_line = rr.randrange(len(lines_) - 1)
            if lines_[k_line].strip():
                lines_[k_line] += "  "
                ir["doc"] = "\n".join(lines_)
    if ir["params"] and r.random() < 0.25:
        # identifiers with a meaning elsewhere in the code base: a name ending in `kwargs` keeps its declared type
        from collections import OrderedDict
        k = r.choice(list(ir["params"]))
        nk = r.choice(("kwargs", "model_kwargs", "n_kwargs", "log_kwargs"))
        if nk not in ir["params"]:
            ir["params"] = OrderedDict((nk if kk == k else kk, v) for kk, v in ir["params"].items())
    return ir


def _snap_ir(intermediate_repr):
    return deepcopy(intermediate_repr)


def literal_members(typ):
    base = irgen.base_of(typ)
    return list(ast.literal_eval(base[len("Literal"):])) if base.startswith("Literal[") else None


def _dev(P, ir, field, how, tk, dk, what, schema, mech=None):
    generic = "json_schema.%s.%s" % (field, how)
    key = (mech + "|" if mech else "") + generic + "|t=%s,d=%s" % (tk, dk)
    P.deviation(key, what, {"stream": CUR.get("stream"), "idx": CUR.get("idx"), "ir": ir, "schema": schema,
                            "field": field, "how": how})


def post_json_schema(intermediate_repr, result, OLD):
    P = CUR.get("P")
    if P is None:
        return True
    P.monitor("json_schema.emit.post")
    ir, schema = OLD.ir, result
    try:
        text = json.dumps(schema)
    except Exception as e:
        _dev(P, ir, "serialise", type(e).__name__, "-", "-", "json.dumps raised %r" % e, repr(schema)[:2000])
        return True
    try:
        jsonschema.Draft202012Validator.check_schema(schema)
        P.monitor("metaschema.checked")
    except jsonschema.SchemaError as e:
        _dev(P, ir, "metaschema", "invalid", "-", "-", "not a valid 2020-12 schema: %s at %s" % (
            e.message[:200], list(e.absolute_path)), schema)
        return True
    props = schema.get("properties", {})
    entries = list(ir["params"].items())
    # property names and order
    want_names = [k for k, _ in entries]
    if list(props) != want_names:
        _dev(P, ir, "properties", "names-differ", "-", "-", "properties %r != params %r" % (list(props), want_names),
             schema)
        return True
    # required <=> not Optional
    want_req = [k for k, p in entries if not p["typ"].startswith("Optional[")]
    P.monitor("required.checked")
    if schema.get("required") != want_req:
        _dev(P, ir, "required", "differs", "-", "-", "required %r, non-Optional parameters %r" % (
            schema.get("required"), want_req), schema)
    for name, p in entries:
        tk, dk = irgen.type_kind_of(p["typ"]), irgen.default_kind_of(p)
        prop = props[name]
        # every emitted default validates against its own property schema (and is the described one)
        if "default" in prop:
            P.monitor("default.validated")
            errs = list(jsonschema.Draft202012Validator(prop).iter_errors(prop["default"]))
            if errs:
                _dev(P, ir, "default", "invalid-against-own-schema", tk, dk, "%s: default %r: %s" % (
                    name, prop["default"], errs[0].message[:150]), schema)
            if "default" in p and not (type(prop["default"]) is type(p["default"]) and prop["default"] == p["default"]):
                _dev(P, ir, "default", "differs", tk, dk, "%s: default %r described %r" % (
                    name, prop["default"], p["default"]), schema)
        elif "default" in p and p["default"] != irgen.NONE_STR:
            _dev(P, ir, "default", "lost", tk, dk, "%s: described default %r not emitted" % (name, p["default"]), schema)
        # Literal -> pattern accepting exactly its members
        members = literal_members(p["typ"])
        if members is not None:
            P.monitor("pattern.checked")
            pat = prop.get("pattern")
            if not isinstance(pat, str):
                _dev(P, ir, "pattern", "missing", tk, dk, "%s: Literal without pattern: %r" % (name, prop), schema)
            else:
                rejected = [m for m in members if re.fullmatch(pat, m) is None]
                probes = set()
                for m in members:
                    probes.update((m[:-1], m[1:], m + "x", "x" + m, m + members[0], m.upper(), ""))
                probes -= set(members)
                accepted = sorted(q for q in probes if re.fullmatch(pat, q) is not None)
                if rejected or accepted:
                    # members are joined with '|' as they are: one that holds a regular-expression metacharacter (c++,
                    # v1.0) changes what the pattern accepts - recorded finding, keyed to such members
                    meta = any(re.search(r"[.^$*+?{}\[\]\\|()]", m) for m in members)
                    _dev(P, ir, "pattern", "not-exact", tk, dk, "%s: pattern %r rejects %r / accepts %r" % (
                        name, pat, rejected, accepted), schema,
                         mech="json_schema.literal-member-with-regex-metacharacter-joined-unescaped" if meta else None)
                if prop.get("type") != "string":
                    _dev(P, ir, "pattern", "type-not-string", tk, dk, "%s: %r" % (name, prop), schema)
                for m in members:
                    if list(jsonschema.Draft202012Validator(prop).iter_errors(m)):
                        _dev(P, ir, "pattern", "member-invalid", tk, dk, "%s: member %r rejected by %r" % (
                            name, m, prop), schema)
    # way back
    try:
        back = cdd.json_schema.parse.json_schema(json.loads(text))
        P.monitor("roundtrip.checked")
    except Exception as e:
        _dev(P, ir, "parse", "raises:" + type(e).__name__, "-", "-", repr(e)[:200], schema)
        return True
    exp = deepcopy(ir)
    # the return entry travels inside the schema's description (":return: ... / :rtype: ...") and comes back from there
    got = {"params": deepcopy(back["params"]), "returns": deepcopy(back.get("returns"))}
    P.monitor("roundtrip.returns.compared" if (ir.get("returns") or {}).get("return_type") else "roundtrip.no-returns")
    for d_ in (exp, got):
        for p in d_["params"].values():
            if p.get("default") == irgen.NONE_STR and (p.get("typ") or "").startswith("Optional["):
                del p["default"]  # carried by the type (see ASSUMPTIONS): `Optional[T] = None` == not required
            m = literal_members(p["typ"]) if p.get("typ") else None
            if m is not None:
                pre = "Optional[" if p["typ"].startswith("Optional[") else ""
                p["typ"] = "%sLiteral[%s]%s" % (pre, ", ".join(map(repr, sorted(m))), "]" if pre else "")
    # the interface's own description comes back character for character (it is the schema's description)
    P.monitor("roundtrip.description.compared")
    if (back.get("doc") or "").strip() != (ir.get("doc") or "").strip():
        P.deviation("json_schema.roundtrip.description.changed|lines=%d" % min(3, (ir.get("doc") or "").count("\n") + 1),
                    "round trip: description %r came back as %r" % ((ir.get("doc") or "")[:80], (back.get("doc") or "")[:80]),
                    {"stream": CUR.get("stream"), "idx": CUR.get("idx"), "ir": ir, "schema": schema})
    for d in cmp_ir(exp, got, returns=True):
        generic = "json_schema.roundtrip.%s.%s.%s" % (d["where"], d["field"], d["how"])
        P.deviation(generic + "|t=%s,d=%s" % (d["tkind"], d["dkind"]),
                    "round trip: %s %s %s: expected %r got %r" % (d["where"], d["field"], d["how"], d.get("exp"),
                                                                 d.get("got")),
                    {"stream": CUR.get("stream"), "idx": CUR.get("idx"), "ir": ir, "schema": schema, "diff": d})
    return True


def setup_shard(ctx, P):
    contracts.attach(cdd.json_schema.emit, "json_schema", post_json_schema, [("ir", _snap_ir)])
    P.notes["pattern_unanchored"] = True


def run_case(ctx, P, stream, idx):
    ir = gen_case(ctx, stream, idx)
    CUR.update(P=P, stream=stream, idx=idx)
    P.case({"ir": ir}, nontrivial=bool(ir["params"]), klass="%s/n=%d" % (stream, len(ir["params"])),
           sample={"shape": irgen.shape(ir), "ir": ir})
    try:
        cdd.json_schema.emit.json_schema(deepcopy(ir))
    except Exception as e:
        _dev(P, ir, "emit", "raises:" + type(e).__name__, "-", "-", repr(e)[:200], None)
    CUR.update(P=None)


if __name__ == "__main__":
    sys.exit(core.main(sys.modules[__name__]))
