"""C13 — sync_properties updates exactly the selected property.

Observed at the real CLI (`python -m cdd sync_properties ...`) in a subprocess under the
file-system snapshot monitor (M3). Oracle: the output file's AST before/after, with the selected
location masked in both, must be identical (so every other definition, parameter, default and
statement is unchanged and parameter/default alignment is preserved); the selected location must
carry the input's name and annotation (wrapped by the template) or, in --input-eval mode, its own
name and the Literal of the evaluated value; the input file is byte-identical.
"""

import ast
import os
import shutil
import subprocess
import sys
import tempfile
from copy import deepcopy

from vcdd import REPO, core
from vcdd.gen import irgen
from vcdd.monitors import fsnap

PID = "C13"
RULE = ("pairs of generated modules (input: class with annotated attributes, function with annotated parameters, "
        "top-level sequences for eval; output: class with annotated attributes and methods (self/cls first, keyword-only), "
        "top-level function; 1..5 parameters with and without defaults) x every kind of (input, output) dotted path x wrap "
        "template present/absent x --input-eval; a case = one invocation; distinct by content digest; non-trivial = the "
        "command accepted the paths")
REQUIRED_MONITORS = ("sync_properties.run", "masked-ast.compared", "location.checked", "input.unchanged.checked")
ASSUMPTIONS = ["every generated request names locations that exist: a command that fails is a deviation (with the output "
               "file required to be untouched), not a rejected case",
               "input properties are annotated class attributes / annotated parameters; eval inputs are top-level "
               "list/tuple values"]
TYPES = ("int", "float", "str", "bool", "Optional[int]", "Optional[str]", "List[int]", "Literal['a', 'b']")
VALUES = {"int": ("5", "-3", "42"), "float": ("2.5", "-0.5"), "str": ("'hello'", "'x y'"), "bool": ("True", "False"),
          "Optional[int]": ("None", "7"), "Optional[str]": ("None", "'s'"), "List[int]": ("None", "[1, 2]"),
          "Literal['a', 'b']": ("'a'", "'b'")}
WRAPS = ("Optional[{output_param}]", "Optional[Union[{output_param}, str]]", "List[{output_param}]")
EVALS = {"VALUE": "[5 * 5, 'x']", "TUP": "('a', 'b', 'c')", "GEN": "tuple(range(3))", "WORDS": "'np tf'.split()",
         # members that compare equal without being the same constant, a repeated member, a single member, mixed kinds
         "FLAGS": "(0, False, 1, True)", "MODES": "('r', 'w', 'r')", "LEVELS": "[1, True, 2]", "ONE": "('only',)",
         "MIXED": "(None, 'a', 2.5, -1)",
         # the shortest strings: empty, one character, two characters - among them the two that consist of quote marks only
         "QUOTES": "(\"''\", 'x')", "DQ": "('\"\"',)", "SHORT": "('', 'a', 'ab')", "TICKS": "(\"'\", '\"')"}
BUDGET_S = {"quick": 400, "thorough": 3000}


def streams(ctx):
    return [("invocations", ctx.scale(640, 6000)), ("ascii_locale", ctx.scale(48, 500))]


def gen_pair(r):
    names = r.sample(irgen.NAMES, 12)
    a_attrs = [(names[i], r.choice(TYPES)) for i in range(r.randint(2, 4))]
    f_params = [(names[4 + i], r.choice(TYPES)) for i in range(r.randint(1, 3))]
    inp = ["from typing import List, Literal, Optional", "", "", "class A(object):", '    """A doc"""']
    for n, t in a_attrs:
        inp.append("    %s: %s = %s" % (n, t, r.choice(VALUES[t])))
    inp += ["", "", "def fin(%s):" % ", ".join("%s: %s = %s" % (n, t, r.choice(VALUES[t])) for n, t in f_params), "    pass", ""]
    for k, v in EVALS.items():
        inp.append("%s = %s" % (k, v))
    inp_src = "\n".join(inp) + "\n"

    # output module
    def params(first, pool):
        n = r.randint(1, 5)
        ps, seen_default = [], False
        k_pos = r.randint(0, n)
        for i in range(n):
            nm = pool.pop()
            t = r.choice(TYPES) if r.random() < 0.7 else None
            kwonly = i >= k_pos
            has_d = r.random() < 0.5 or (seen_default and not kwonly)
            if not kwonly:
                seen_default = seen_default or has_d
            ps.append({"name": nm, "typ": t, "default": r.choice(VALUES[t] if t else ("5", "None", "'z'")) if has_d else None,
                       "kwonly": kwonly})
        txt = [first] if first else []
        star = False
        for p in ps:
            if p["kwonly"] and not star:
                txt.append("*")
                star = True
            txt.append("%s%s%s" % (p["name"], ": %s" % p["typ"] if p["typ"] else "",
                                   (" = %s" if p["typ"] else "=%s") % p["default"] if p["default"] is not None else ""))
        return ps, ", ".join(txt)

    taken = set(n for n, _ in a_attrs + f_params)
    pool = [n for n in dict.fromkeys(names[7:] + ["x", "y", "z", "u", "v", "w", "q1", "q2", "q3", "q4"]) if n not in taken]
    r.shuffle(pool)
    # name coincidence: let some output names equal input names
    coincide = r.random() < 0.35
    if coincide:
        pool += [n for n, _ in a_attrs + f_params]  # (each at most once: `pool.pop()` never yields a name twice)
    b_attrs = []
    for i in range(r.randint(1, 3)):
        t = r.choice(TYPES)
        b_attrs.append((pool.pop(), t, r.choice(VALUES[t]) if r.random() < 0.8 else None))
    m_first = r.choice(("self", "cls", "static"))  # (a static method has no receiver to skip)
    m_ps, m_txt = params(None if m_first == "static" else m_first, pool)
    g_ps, g_txt = params(None, pool)
    out = ["import os  # keep", "from typing import List, Literal, Optional, Union", "", "", "class B(object):",
           '    """B doc"""']
    for n, t, v in b_attrs:
        out.append("    %s: %s%s" % (n, t, " = %s" % v if v is not None else ""))
    out += ["", "    %sdef m(%s):" % ({"cls": "@classmethod\n    ", "static": "@staticmethod\n    "}.get(m_first, ""), m_txt), "        return 1", "",
            "    other = 3", "", "", "def g(%s):" % g_txt, '    """g doc"""', "    return None", "", "", "TAIL = 9", ""]
    out_src = "\n".join(out)
    compile(out_src, "<generated output module>", "exec")  # harness self-check (duplicate argument names etc.)
    return inp_src, out_src, {"A": a_attrs, "fin": f_params, "B": b_attrs, "B.m": m_ps, "g": g_ps, "m_first": m_first}


def find_func(tree, path):
    node = tree
    for part in path:
        node = next((n for n in node.body if isinstance(n, (ast.ClassDef, ast.FunctionDef)) and n.name == part), None)
        if node is None:
            return None
    return node


def all_args(fn):
    a = fn.args
    return a.posonlyargs + a.args + a.kwonlyargs


def default_slot(fn, arg):
    """('d'|'k', index) of the default belonging to `arg` or None"""
    a = fn.args
    pos = a.posonlyargs + a.args
    if arg in pos:
        i = pos.index(arg) - (len(pos) - len(a.defaults))
        return ("d", i) if i >= 0 else None
    j = a.kwonlyargs.index(arg)
    return ("k", j) if a.kw_defaults[j] is not None else None


def mask(tree, out_path, by_index, mask_default):
    """replace the selected location by a placeholder; returns (dump, selected node description)"""
    tree = deepcopy(tree)
    sel = None
    if len(out_path) >= 2:
        owner = find_func(tree, out_path[:-1])
        if isinstance(owner, ast.ClassDef):
            stmt = owner.body[by_index]
            sel = {"kind": "attr", "node": deepcopy(stmt)}
            owner.body[by_index] = ast.Pass()
        elif isinstance(owner, ast.FunctionDef):
            args = all_args(owner)
            arg = args[by_index]
            slot = default_slot(owner, arg)
            sel = {"kind": "param", "name": arg.arg, "annotation": arg.annotation, "slot": slot,
                   "default": None if slot is None else (owner.args.defaults if slot[0] == "d" else owner.args.kw_defaults)[slot[1]]}
            arg.arg, arg.annotation = "__MASKED__", None
            if mask_default and slot is not None:
                (owner.args.defaults if slot[0] == "d" else owner.args.kw_defaults)[slot[1]] = ast.Constant(value="__MASKED__")
    return ast.dump(tree), sel


def locate(tree, out_path):
    owner = find_func(tree, out_path[:-1])
    if owner is None:
        return None, None
    if isinstance(owner, ast.ClassDef):
        for i, s in enumerate(owner.body):
            tgt = s.target if isinstance(s, ast.AnnAssign) else (s.targets[0] if isinstance(s, ast.Assign) else None)
            if isinstance(tgt, ast.Name) and tgt.id == out_path[-1]:
                return owner, i
        return owner, None
    for i, a in enumerate(all_args(owner)):
        if a.arg == out_path[-1]:
            return owner, i
    return owner, None


def run_ascii_locale(ctx, P, stream, idx):
    """the same request where the interpreter's preferred encoding is ASCII (LC_ALL=C, UTF-8 mode off) and the modules hold a
    non-ASCII character somewhere: the command may refuse (it cannot read or cannot write such a file) - then both files are
    byte for byte what they were; nothing else in the output file may change, least of all everything"""
    r = ctx.rng(stream, idx)
    inp_src, out_src, meta = gen_pair(r)
    extra = r.choice(('GREETING = "caf\u00e9"\n', "# na\u00efve comment\n", 'UNIT: str = "\u00b5m"\n', "\u03bb_rate = 0.5\n"))
    where = r.choice(("inp", "out", "both"))
    if where in ("inp", "both"):
        inp_src += extra
    if where in ("out", "both"):
        out_src += extra
    in_name = r.choice(meta["A"])[0]
    out_name = r.choice(meta["B"])[0]
    d = tempfile.mkdtemp(prefix="vcdd-c13-")
    try:
        for fn, text in (("inp.py", inp_src), ("out.py", out_src)):
            with open(os.path.join(d, fn), "w", encoding="utf-8", newline="") as f:
                f.write(text)
        argv = [sys.executable, "-m", "cdd", "sync_properties", "--input-filename", "inp.py", "--input-param", "A." + in_name,
                "--output-filename", "out.py", "--output-param", "B." + out_name]
        env = dict(os.environ, PYTHONPATH=REPO, PYTHONDONTWRITEBYTECODE="1", LC_ALL="C", LANG="C", PYTHONUTF8="0",
                   PYTHONCOERCECLOCALE="0")
        env.pop("PYTHONIOENCODING", None)
        pr = subprocess.run(argv, cwd=d, env=env, stdout=subprocess.PIPE, stderr=subprocess.PIPE, timeout=300)
        P.monitor("sync_properties.run")
        P.monitor("ascii-locale.run")
        with open(os.path.join(d, "out.py"), "rb") as f:
            out_after = f.read()
        with open(os.path.join(d, "inp.py"), "rb") as f:
            inp_after = f.read()
    finally:
        shutil.rmtree(d, ignore_errors=True)
    feats = "ascii-locale,non-ascii-in=%s" % where
    P.case({"inp": inp_src, "out": out_src, "argv": argv[4:]}, klass=feats, sample={"where": where, "added": extra,
                                                                                  "exit": pr.returncode})
    w = {"stream": stream, "idx": idx, "input": inp_src, "output_before": out_src,
         "output_after": out_after.decode("utf-8", "replace"), "stderr": pr.stderr.decode("utf-8", "replace")[-400:]}
    P.count("ascii-locale.exit-%s" % ("0" if pr.returncode == 0 else "nonzero"))
    if inp_after != inp_src.encode("utf-8"):
        P.deviation("sync_properties.input-file-modified|" + feats, "the input file changed", w)
    if pr.returncode != 0 and out_after != out_src.encode("utf-8"):
        P.deviation("sync_properties.failed-but-output-changed|" + feats,
                    "sync_properties exited %d and the output file changed from %d to %d bytes" % (
                        pr.returncode, len(out_src.encode("utf-8")), len(out_after)), w)


def run_case(ctx, P, stream, idx):
    if stream == "ascii_locale":
        return run_ascii_locale(ctx, P, stream, idx)
    r = ctx.rng(stream, idx)
    inp_src, out_src, meta = gen_pair(r)
    evalmode = r.random() < 0.2
    wrap = r.choice(WRAPS) if r.random() < 0.3 else None
    if evalmode:
        in_param, in_name, in_ann = r.choice(list(EVALS)), None, None
    else:
        owner = r.choice(("A", "fin"))
        in_name, in_ann = r.choice(meta[owner])
        in_param = "%s.%s" % (owner, in_name)
    okind = r.choice(("B", "B.m", "g"))
    if okind == "B":
        out_name = r.choice(meta["B"])[0]
    else:
        out_name = r.choice(meta[okind])["name"]
    in_value = None
    if not evalmode:
        import re

        m_ = re.search(r"\b%s: [^=\n]+ = ([^,)\n]+)" % re.escape(in_name), inp_src)
        in_value = m_.group(1).strip() if m_ else None
        all_out_names = set(n for n, _, _ in meta["B"]) | set(p_["name"] for p_ in meta["B.m"] + meta["g"])
        # (directed more often for function / method targets: there the new default has to find its slot in `defaults`)
        if r.random() < (0.6 if okind != "B" else 0.3) and in_name not in all_out_names and in_name != out_name:
            # directed: the selected output location already has the input's name
            out_src = re.sub(r"\b%s\b" % re.escape(out_name), in_name, out_src)
            for p_ in meta["B.m"] + meta["g"]:
                if p_["name"] == out_name:
                    p_["name"] = in_name
            meta["B"] = [(in_name if n == out_name else n, t, v) for n, t, v in meta["B"]]
            out_name = in_name
    out_param = "%s.%s" % (okind, out_name)
    d = tempfile.mkdtemp(prefix="vcdd-c13-")
    try:
        with open(os.path.join(d, "inp.py"), "w") as f:
            f.write(inp_src)
        with open(os.path.join(d, "out.py"), "w") as f:
            f.write(out_src)
        argv = [sys.executable, "-m", "cdd", "sync_properties", "--input-filename", "inp.py", "--input-param", in_param,
                "--output-filename", "out.py", "--output-param", out_param]
        if evalmode:
            argv.append("--input-eval")
        if wrap:
            argv += ["--output-param-wrap", wrap]
        cfg = {"input_param": in_param, "output_param": out_param, "eval": evalmode, "wrap": wrap}
        snap0 = fsnap.snapshot(d)
        # (the command runs under its own string-hash seed, as a user's invocation does; the harness under 0)
        env = dict(os.environ, PYTHONPATH=REPO, PYTHONDONTWRITEBYTECODE="1", PYTHONHASHSEED=str(1 + (idx * 31) % 9973))
        pr = subprocess.run(argv, cwd=d, env=env, stdout=subprocess.PIPE, stderr=subprocess.PIPE, timeout=300)
        P.monitor("sync_properties.run")
        diff = fsnap.diff(snap0, fsnap.snapshot(d))
        with open(os.path.join(d, "out.py")) as f:
            after = f.read()
        with open(os.path.join(d, "inp.py")) as f:
            inp_after = f.read()
    finally:
        shutil.rmtree(d, ignore_errors=True)
    coincide = in_name == out_name
    okind_s = "attr" if okind == "B" else "param"
    feats = "in=%s,out=%s,eval=%s,wrap=%s,same_name=%s" % ("eval" if evalmode else in_param.split(".")[0], okind, evalmode,
                                                          bool(wrap), coincide)
    w = {"stream": stream, "idx": idx, "config": cfg, "input": inp_src, "output_before": out_src, "output_after": after}
    accepted = pr.returncode == 0
    P.case({"inp": inp_src, "out": out_src, "cfg": cfg}, nontrivial=accepted, klass=feats,
           sample={"config": cfg, "output_before_head": out_src[:500]})

    dup = (not evalmode) and okind != "B" and any(p_["name"] == in_name and p_["name"] != out_name for p_ in meta[okind])

    def dev(kind, what, **extra):
        mech = ""
        if dup and kind in ("collateral-change", "output-not-python"):
            mech = "sync_properties.duplicate-parameter-name|"
        elif kind == "location.eval-attribute-value-dropped":
            mech = "sync_properties.eval.class-attribute-value-dropped|"
        P.deviation(mech + "sync_properties.%s|%s" % (kind, feats), what, dict(w, **extra))

    P.monitor("input.unchanged.checked")
    if inp_after != inp_src:
        dev("input-file-modified", "the input file changed")
    touched = [p for p in fsnap.changed_paths(diff) if p not in ("out.py", "./")]
    if touched:
        dev("other-file-touched", "paths other than the output changed: %r" % touched)
    if not accepted:
        P.count("rejected")
        # every generated request names an existing input property and an existing output location: a run that
        # fails did not replace the selected location
        last = (pr.stderr.decode().strip().splitlines() or ["?"])[-1]
        dev("command-fails.%s" % last.split(":")[0].strip()[:30], "sync_properties exited %d on a valid request: %s" % (
            pr.returncode, last[:200]))
        if after != out_src:
            dev("rejected-but-output-changed", "command failed (%s) yet the output file changed" % (
                pr.stderr.decode().strip().splitlines() or ["?"])[-1][:120])
        return
    try:
        after_tree = ast.parse(after)
        compile(after, "<after sync_properties>", "exec")  # (the compiler refuses more than the grammar does)
    except SyntaxError as e:
        return dev("output-not-python", "output no longer parses: %r" % (e,))
    before_tree = ast.parse(out_src)
    out_path = out_param.split(".")
    owner_b, i = locate(before_tree, out_path)
    if i is None:
        return P.error("harness: target %s not found in generated output" % out_param)
    dump_b, sel_b = mask(before_tree, out_path, i, mask_default=coincide)
    try:
        dump_a, sel_a = mask(after_tree, out_path, i, mask_default=coincide)
    except Exception as e:
        return dev("structure-changed", "cannot locate the selected slot after the run: %r" % (e,))
    P.monitor("masked-ast.compared")
    if dump_a != dump_b:
        from vcdd.oracle.astcmp import first_difference
        mb = ast.parse(out_src)
        ma = ast.parse(after)
        dev("collateral-change", "something other than the selected location changed (masked ASTs differ)")
        return
    # the selected location itself
    P.monitor("location.checked")
    exp_name = out_name if evalmode else in_name
    if evalmode:
        exp_ann = None  # checked structurally below
    else:
        exp_ann = ast.unparse(ast.parse(wrap.format(output_param=in_ann) if wrap else in_ann, mode="eval").body)
    if sel_a["kind"] == "attr":
        node = sel_a["node"]
        if not isinstance(node, ast.AnnAssign) or not isinstance(node.target, ast.Name):
            return dev("location.not-annotated-attribute", "selected attribute became %s" % ast.unparse(node))
        got_name, got_ann = node.target.id, ast.unparse(node.annotation)
        if evalmode and node.value is None and sel_b["node"].value is not None:
            dev("location.eval-attribute-value-dropped", "eval mode dropped the attribute's value: %s" % ast.unparse(node))
    else:
        got_name, got_ann = sel_a["name"], ast.unparse(sel_a["annotation"]) if sel_a["annotation"] is not None else None
        # when names coincide the location's *own* default may take the input's value (the property
        # only demands that every *other* default is untouched, which the masked comparison decided)
    if got_name != exp_name:
        dev("location.name", "selected location is named %r, expected %r" % (got_name, exp_name))
    if evalmode:
        if not (got_ann or "").replace("Optional[", "").replace("List[", "").replace("Union[", "").startswith("Literal["):
            dev("location.eval-annotation", "eval mode annotation is %r, expected a Literal[...]" % got_ann)
        else:
            want = eval(EVALS[in_param])
            inner = got_ann[got_ann.index("Literal[") + 8:]
            depth, k = 1, 0
            while depth and k < len(inner):
                depth += inner[k] == "["
                depth -= inner[k] == "]"
                k += 1
            members = ast.literal_eval("(%s,)" % inner[:k - 1])
            if [(type(m_), m_) for m_ in members] != [(type(m_), m_) for m_ in want]:
                dev("location.eval-members", "Literal members %r != evaluated %r" % (members, want))
            # the wrap template applies in eval mode too: the annotation is the template around that Literal
            literal_text = "Literal[" + inner[:k]
            exp_eval = ast.unparse(ast.parse(wrap.format(output_param=literal_text) if wrap else literal_text, mode="eval").body)
            if ast.unparse(ast.parse(got_ann, mode="eval").body) != exp_eval:
                dev("location.eval-annotation-wrap", "eval mode annotation %r, expected %r" % (got_ann, exp_eval))
    elif got_ann != exp_ann:
        dev("location.annotation", "selected location annotated %r, expected %r" % (got_ann, exp_ann))


MIN_DISTINCT = 20


if __name__ == "__main__":
    _orig = core.conclude

    def conclude(module, ctx, P, inconclusive, t0):
        rej = P.counters.get("rejected", 0)
        if P.evaluations and rej > 0.5 * P.evaluations:
            inconclusive.append("%d of %d invocations were rejected by the command" % (rej, P.evaluations))
        return _orig(module, ctx, P, inconclusive, t0)

    core.conclude = conclude
    sys.exit(core.main(sys.modules[__name__]))
