"""C11 — every parse, emit and doctrans call terminates (decided as bounded progress).

Monitor M4 (sys.monitoring LINE events scoped to the package): every monitored call must finish
(return or raise) within a budget of interpreter line events that depends on the input size —
logical time, never wall-clock. Exceeding the budget raises inside the spinning frame; the
hottest lines are the witness. A 60 s `signal.alarm` watchdog only yields *inconclusive*.
"""

import ast
import os
import shutil
import sys
import tempfile
from copy import deepcopy

import cdd.class_.emit
import cdd.class_.parse
import cdd.compound.doctrans
import cdd.docstring.emit
import cdd.docstring.parse
import cdd.function.emit
import cdd.function.parse
import cdd.shared.cst

from vcdd import REPO, core
from vcdd.gen import docgen, irgen, progen
from vcdd.monitors.steps import StepMonitor
from vcdd.oracle import hops

PID = "C11"
RULE = ("(1) docstring texts: all sequences of length <= N over a %d-token alphabet of section markers, names, types, "
        "backticks, colons, newlines and indentation (N=3 quick, N=4 thorough; distinct by construction) plus random "
        "longer ones, each parsed; (2) interfaces with hostile prose (empty, whitespace-only, leading blank / "
        "whitespace-only lines, headers without bodies, truncated tokens) and hostile original docstrings, emitted as "
        "docstring / function / class in 3 styles x indent levels 0..2 and parsed back; (3) generated modules x doctrans "
        "applied 1..3 times; non-trivial = non-empty input" % len(docgen.TOKEN_ALPHABET))
REQUIRED_MONITORS = ("steps.docstring.parse", "steps.docstring.emit", "steps.function.emit", "steps.argparse.emit", "steps.doctrans",
                     "steps.cst_parse", "growth.compared")
ASSUMPTIONS = [
    "growth is bounded as steps(2k) <= 2.5 * steps(k) * (chars(2k)/chars(k))^2 on four input families (nested definitions, "
    "many methods, many parameters, docstring with many parameters); quadratic work passes, work that doubles per level "
    "or per entry is cut",
    "termination is decided as bounded progress: budget B(n) = 100000 + 6000*n line events for docstring/format "
    "parsers and emitters, 200000 + 40*n + 16*n^2 for the (legitimately quadratic) CST scan and doctrans, n = input "
    "characters; the worst observed ratio steps/budget of each run is reported so drift is visible",
    "'never terminates' and 'terminates after more than the budget' are indistinguishable to a monitor",
]
STYLES = ("rest", "google", "numpydoc")
MON = None
BLOCK = 200

HOSTILE = ["", " ", "   ", "\n", "\n\n", "   \n", "   \nSummary", "\n   \n   \nSummary line", "\t\n\tx", ":param", ":param x",
           ":param x:", ":type", ":type x: ```", "Args:", "Args:\n", "Returns:", "Returns:\n  ", "Parameters\n----------",
           "Parameters\n----------\n", "Returns\n-------\n", "Raises:\n", "```", "``` ```", "x :", ":", ":return:", ":rtype:",
           "Defaults to", "Defaults to ```", "Summary\n\n   \n", "  \n  \n  \nx\n  \n", "\r\n", " \n \n \n \n \n",
           # white-space only lines, then a last line of blanks and one / two characters (a docstring cut right after its first token)
           " \n a", "  \n  \n  b", "\t\n\t:", " \n ab", "\n a", "   \n   \n x", " \n\n a", " \n :",
           # what a formatter, a template engine or a regular expression would interpret
           "%", "50% is typical", "drop 50%", "%s", "%(default)s", "100%% sure", "{", "}", "{}", "{0", "\\", "\\1", "(", "[", "*",
           "a|b", "$", "^", "?", "'", '"', "#", ";", ",", ".", "..", "..."]


def budget_linear(n):
    return 100000 + 6000 * n


def budget_quadratic(n):
    return 200000 + 40 * n + 16 * n * n


def n_tok(ctx):
    return ctx.scale(3, 4)


def total_tok(ctx):
    return sum(len(docgen.TOKEN_ALPHABET) ** k for k in range(0, n_tok(ctx) + 1))


def EXHAUSTIVE(ctx):
    return {"what": "all docstring token sequences of length <= %d over the %d-token alphabet" % (
        n_tok(ctx), len(docgen.TOKEN_ALPHABET)), "strings": total_tok(ctx)}


def streams(ctx):
    return [("tokens", (total_tok(ctx) + BLOCK - 1) // BLOCK), ("tokens_random", ctx.scale(1500, 40000)),
            ("hostile_ir", ctx.scale(250, 5000)), ("doctrans", ctx.scale(60, 1500)), ("cst", ctx.scale(40, 600)),
            ("alternatives", ctx.scale(600, 12000)), ("scaling", ctx.scale(24, 240))]


# --- growth monitor -----------------------------------------------------------------------------------------------
# The absolute budgets above are sized for legitimately quadratic work on arbitrary input and are far too generous to
# notice work that doubles with every nesting level or every entry. The `scaling` stream therefore measures the same
# call on two inputs of one family, size k and 2k, in logical time, and bounds the growth: steps(2k) must stay below
# GROWTH * steps(k) * (n2/n1)^2 (n = characters) - the larger run is *cut* at that budget.
GROWTH = 2.5


def fam_nested(k):
    out = []
    for d in range(k):
        pre = "    " * d
        out += ["%sdef level_%d(a_%d, b_%d=%d):" % (pre, d, d, d, d), '%s    """' % pre, "%s    Level %d of the chain" % (pre, d),
                "", "%s    :param a_%d: first thing" % (pre, d), "%s    :type a_%d: ```int```" % (pre, d), "",
                "%s    :param b_%d: second thing" % (pre, d), "%s    :type b_%d: ```int```" % (pre, d), "",
                "%s    :return: the sum" % pre, "%s    :rtype: ```int```" % pre, '%s    """' % pre,
                "%s    total_%d: int = a_%d + b_%d" % (pre, d, d, d)]
    for d in reversed(range(k)):
        out.append("%s    return total_%d" % ("    " * d, d))
    return "\n".join(out) + "\n"


def fam_wide_class(k):
    out = ["class Wide(object):", '    """', "    A class with many methods", '    """', ""]
    for i in range(k):
        out += ["    def method_%d(self, a, b=%d):" % (i, i), '        """', "        Method %d" % i, "",
                "        :param a: first thing", "        :type a: ```int```", "", "        :param b: second thing",
                "        :type b: ```int```", "", "        :return: the sum", "        :rtype: ```int```", '        """',
                "        return a + b", ""]
    return "\n".join(out)


def fam_many_params(k):
    names = ["p_%d" % i for i in range(k)]
    out = ["def many(%s):" % ", ".join("%s=%d" % (n, i) for i, n in enumerate(names)), '    """', "    Many parameters", ""]
    for n in names:
        out += ["    :param %s: the %s thing" % (n, n), "    :type %s: ```int```" % n, ""]
    out += ["    :return: nothing", "    :rtype: ```None```", '    """', "    return None", ""]
    return "\n".join(out)


def fam_docstring(k, style):
    params = [("p_%d" % i, "int", "the thing number %d" % i, i) for i in range(k)]
    import random
    text, _ = docgen.compose(random.Random(k), style, params=params, returns=("int", "the total"), with_footer=False, paragraphs=2)
    return text


FAMILIES = {"nested-definitions": (fam_nested, (5, 6, 7)), "many-methods": (fam_wide_class, (5, 7, 9)),
            "many-parameters": (fam_many_params, (8, 10, 14))}


def setup_shard(ctx, P):
    global MON
    MON = StepMonitor(os.path.join(REPO, "cdd"))
    MON.install()
    P.notes["worst_ratio"] = 0.0


def monitored(P, label, fn, n, budget_fn, witness):
    """run `fn` under the step monitor; any outcome but budget/watchdog is fine"""
    budget = budget_fn(n)
    if P.counters.get("budget-exceeded." + label, 0) >= 3:
        # this label already has three cut witnesses in this shard: more add nothing but minutes
        P.count("skipped-after-violation." + label)
        return "skipped", None
    outcome, val, steps = MON.run(fn, budget)
    P.monitor("steps." + label)
    ratio = steps / float(budget)
    if ratio > P.notes.get("worst_ratio", 0.0):
        P.notes["worst_ratio"] = round(ratio, 4)
    if ratio > P.notes.get("worst_ratio." + label, 0.0):
        P.notes["worst_ratio." + label] = round(ratio, 4)
    P.count("outcome." + outcome)
    if outcome == "budget":
        P.count("budget-exceeded." + label)
        P.deviation("nontermination.%s" % label,
                    "%s did not finish within %d line events (input size %d); hottest lines: %s" % (
                        label, budget, n, MON.hottest(3)),
                    dict(witness, label=label, budget=budget, steps=steps, hottest=MON.hottest(5)))
    elif outcome == "watchdog":
        P.error("wall-clock watchdog fired in %s (inconclusive): %r" % (label, witness))
    return outcome, val


def hostile_text(r):
    k = r.random()
    if k < 0.4:
        return r.choice(HOSTILE)
    if k < 0.7:
        return r.choice(HOSTILE) + irgen.rand_doc(r) + r.choice(HOSTILE)
    if k < 0.85:
        t, _ = docgen.compose(r, r.choice(STYLES), indent=r.randint(0, 2), lead_nl=r.random() < 0.7)
        cut = r.randint(0, len(t))
        return t[:cut]  # truncated mid-token
    t, _ = docgen.compose(r, r.choice(STYLES), indent=r.randint(0, 2))
    return r.choice(("   \n", "\n \n", "")) + t


ALTERNATIVES = ("one of `fast`, `slow` or `auto`", "a name or an id", "list of things", "either 'np' or 'tf'",
                "can be `foo` or `bar`. More text here", "tuple of sizes or None", "str or int", "kind of thing",
                "`a`|`b` or `c`", "path/to or other")
ODD_SPACE = ("\t", "\u00a0", "\n", "\n    ", "\r\n", "\x0b", "  ", "\t\t", " \t ")


def alternatives_doc(r):
    """prose the ad-hoc type scanner walks character by character, with white-space other than U+0020 inside"""
    text = r.choice(ALTERNATIVES)
    for _ in range(r.randint(1, 3)):
        spaces = [i for i, ch in enumerate(text) if ch == " "]
        if not spaces:
            break
        i = r.choice(spaces)
        text = text[:i] + r.choice(ODD_SPACE) + text[i + 1:]
    return "%s %s" % (irgen.rand_doc(r, 2, stop=False), text) if r.random() < 0.5 else text


def run_case(ctx, P, stream, idx):
    r = ctx.rng(stream, idx)
    w = {"stream": stream, "idx": idx}
    if stream == "alternatives":
        import cdd.shared.docstring_parsers as dp

        style = r.choice(STYLES)
        dps = [(nm, r.choice((None, "int", "str")), alternatives_doc(r), Ellipsis) for nm in r.sample(irgen.NAMES[:20], r.randint(1, 3))]
        text, _ = docgen.compose(r, style, indent=r.randint(0, 1), params=dps, returns=(None, alternatives_doc(r)),
                                 types=r.random() < 0.5, with_footer=False, paragraphs=1)
        P.case({"doc": text}, klass="alternatives/" + style, sample={"docstring": text})
        for ww in (True, False):
            monitored(P, "docstring.parse", lambda: dp.parse_docstring(text, word_wrap=ww), len(text), budget_linear,
                      dict(w, text=text, word_wrap=ww))
        names = [p_[0] for p_ in dps]
        fsrc = "def foo(%s):\n    %s\n    return None\n" % (", ".join(names), '"""%s"""' % text.replace("\\", "\\\\").replace('"""', "'''"))
        try:
            node = ast.parse(fsrc).body[0]
        except SyntaxError:
            return
        monitored(P, "function.parse", lambda: cdd.function.parse.function(node), len(fsrc), budget_linear,
                  dict(w, src=fsrc))
        return
    if stream == "tokens":
        lo, hi = idx * BLOCK, min(total_tok(ctx), (idx + 1) * BLOCK)
        for i in range(lo, hi):
            text = docgen.token_decode(i)
            monitored(P, "docstring.parse", lambda: cdd.docstring.parse.docstring(text), len(text), budget_linear,
                      dict(w, text=text))
        P.bulk(hi - lo, hi - lo - (1 if lo == 0 else 0), klass="tokens", sample={"docstring_text": docgen.token_decode(hi - 1)})
    elif stream == "tokens_random":
        text = docgen.token_string(r, r.randint(4, 14))
        P.case({"text": text}, nontrivial=bool(text), klass="tokens_random", sample={"docstring_text": text})
        for kw in ({}, {"infer_type": True}, {"parse_original_whitespace": True}):
            monitored(P, "docstring.parse", lambda: cdd.docstring.parse.docstring(text, **kw), len(text), budget_linear,
                      dict(w, text=text, kw=kw))
    elif stream == "hostile_ir":
        ir = irgen.rand_ir(r, nparams=r.randint(0, 4), doc_kinds=("plain", "trigger", "multiline", "punct", "quoted"),
                           default_kinds=irgen.DEFAULT_KINDS + ("strodd", "strbad", "strquote"))
        ir["doc"] = hostile_text(r)
        for p in ir["params"].values():
            if r.random() < 0.4:
                p["doc"] = hostile_text(r)
        if r.random() < 0.7:
            ir["_internal"] = {"original_doc_str": hostile_text(r)}
        size = len(repr(ir))
        P.case({"ir": ir}, klass="hostile_ir", sample={"ir": ir})
        for style in STYLES:
            for indent in (0, 1, 2):
                kw = {"docstring_format": style, "indent_level": indent}
                o, text = monitored(P, "docstring.emit", lambda: cdd.docstring.emit.docstring(deepcopy(ir), **kw), size,
                                    budget_linear, dict(w, ir=ir, kw=kw))
                if o == "returned" and isinstance(text, str):
                    monitored(P, "docstring.parse", lambda: cdd.docstring.parse.docstring(text), len(text) + size,
                              budget_linear, dict(w, text=text))
            # every public emitter (and the parser of what it wrote) meets the same prose
            for fmt, label in (("function", "function.emit"), ("class", "class.emit"), ("argparse", "argparse.emit"),
                               ("pydantic", "pydantic.emit"), ("json_schema", "json_schema.emit"),
                               ("sqlalchemy", "sqlalchemy.emit"), ("sqlalchemy_table", "sqlalchemy_table.emit"),
                               ("sqlalchemy_hybrid", "sqlalchemy_hybrid.emit")):
                if fmt == "json_schema" and style != "rest":
                    continue  # (this emitter has no docstring style)
                kw = {} if fmt == "json_schema" else {"docstring_format": style}
                o, res = monitored(P, label, lambda: hops.emit(ir, fmt, **kw), size, budget_linear, dict(w, ir=ir, fmt=fmt, kw=kw))
                if o == "returned":
                    src = res[1]
                    monitored(P, fmt + ".parse", lambda: hops.parse(src, fmt), len(src), budget_linear, dict(w, src=src))
    elif stream == "doctrans":
        src = progen.gen_module(r, prelude=False, n_items=r.randint(1, 3))
        if len(src) > 3500:
            src = progen.gen_module(r, prelude=False, n_items=1)
        P.case({"module": src}, klass="doctrans", sample={"module_head": src[:400], "bytes": len(src)})
        d = tempfile.mkdtemp(prefix="vcdd-c11-")
        try:
            path = os.path.join(d, "m.py")
            with open(path, "w") as f:
                f.write(src)
            style = r.choice(STYLES)
            ta = r.random() < 0.5
            for rounds in range(3):
                if rounds and r.random() < 0.5:
                    style, ta = r.choice(STYLES), r.random() < 0.5
                with open(path) as f:
                    n = len(f.read())
                o, _ = monitored(P, "doctrans", lambda: cdd.compound.doctrans.doctrans(
                    filename=path, docstring_format=style, type_annotations=ta, no_word_wrap=None), n, budget_quadratic,
                    dict(w, module=src, round=rounds + 1, style=style, type_annotations=ta))
                if o != "returned":
                    break
        finally:
            shutil.rmtree(d, ignore_errors=True)
    elif stream == "scaling":
        fam = sorted(FAMILIES)[idx % (len(FAMILIES) + 1)] if idx % (len(FAMILIES) + 1) < len(FAMILIES) else "docstring-parameters"
        style, ta = STYLES[(idx // 4) % 3], (idx // 12) % 2 == 0
        if fam == "docstring-parameters":
            k = (10, 16, 24)[(idx // 4) % 3]
            texts = [fam_docstring(k, style), fam_docstring(2 * k, style)]
            calls = [lambda t=t: cdd.docstring.parse.docstring(t) for t in texts]
        else:
            gen, ks = FAMILIES[fam]
            k = ks[(idx // 4) % len(ks)]
            texts = [gen(k), gen(2 * k)]
            d = tempfile.mkdtemp(prefix="vcdd-c11-")
            paths = []
            for j, t in enumerate(texts):
                paths.append(os.path.join(d, "m%d.py" % j))
                with open(paths[-1], "w") as f:
                    f.write(t)
            calls = [lambda p=p: cdd.compound.doctrans.doctrans(filename=p, docstring_format=style, type_annotations=ta,
                                                                no_word_wrap=None) for p in paths]
        P.case({"family": fam, "k": k, "style": style, "ta": ta}, klass="scaling/" + fam,
               sample={"family": fam, "k": k, "sizes": [len(t) for t in texts], "style": style})
        try:
            n1, n2 = len(texts[0]), len(texts[1])
            o1, _, steps1 = MON.run(calls[0], budget_quadratic(n1))
            P.monitor("growth.small-run")
            if o1 in ("returned", "raised") and steps1 > 0:
                allowed = int(GROWTH * steps1 * (n2 / float(n1)) ** 2) + 50000
                o2, _, steps2 = MON.run(calls[1], allowed)
                P.monitor("growth.compared")
                g = steps2 / float(steps1)
                P.notes["worst_growth." + fam] = max(P.notes.get("worst_growth." + fam, 0.0), round(g, 2))
                if o2 == "budget":
                    P.deviation("superquadratic-growth.%s" % fam,
                                "%s: size k=%d takes %d line events (%d chars), size 2k was cut at %d (%d chars): more than "
                                "%.1f x the quadratic allowance; hottest lines: %s" % (fam, k, steps1, n1, allowed, n2, GROWTH,
                                                                                      MON.hottest(3)),
                                dict(w, family=fam, k=k, style=style, type_annotations=ta, steps_small=steps1, allowed=allowed,
                                     input_small=texts[0][:1500], hottest=MON.hottest(5)))
                elif o2 == "watchdog":
                    P.error("wall-clock watchdog fired in scaling/%s (inconclusive)" % fam)
        finally:
            if fam != "docstring-parameters":
                shutil.rmtree(d, ignore_errors=True)
    elif stream == "cst":
        src = progen.gen_module(r, prelude=False, n_items=r.randint(1, 2))[:3000]
        if r.random() < 0.5:
            from vcdd.props.c09 import mutate
            src = mutate(r, src)
        P.case({"cst": src}, klass="cst", sample={"bytes": len(src)})
        monitored(P, "cst_parse", lambda: cdd.shared.cst.cst_parse(src), len(src), budget_quadratic, dict(w, src=src))


if __name__ == "__main__":
    sys.exit(core.main(sys.modules[__name__]))
