"""C08 — one conversion round reaches a fixpoint (the normal form is stable).

History monitor: IR_n after round n (n = 1..4) of emit -> render -> re-read -> parse for each
format; oracle: canon(IR_{n+1}) == canon(IR_n) for every n >= 1 — exact equality including
descriptions and full stops (AST-valued fields compared by dump). A round that raises after an
earlier round succeeded is a deviation too (the parser's own output must be re-emittable).
"""

import ast
import sys
from collections import OrderedDict
from copy import deepcopy

from vcdd import core
from vcdd.gen import irgen
from vcdd.oracle import hops
from vcdd.oracle.ircmp import canon

PID = "C08"
STYLES = ("rest", "google", "numpydoc")
FORMATS = ("docstring", "class", "pydantic", "function", "argparse", "json_schema", "sqlalchemy", "sqlalchemy_table",
           "sqlalchemy_hybrid")
RULE = ("interfaces deliberately wider than the exact-round-trip domain (descriptions with type-hint trigger words, "
        "multi-line descriptions, non-suffix defaults, None / code-quoted / empty defaults, dict/list/dotted/Union types) x "
        "9 formats (ReST everywhere; Google/NumPy docstrings on the signature-legal domain) x rounds 1..4; a case = "
        "(interface, format, style); distinct by content digest; non-trivial = round 1 succeeded")
REQUIRED_MONITORS = ("round.observed", "fixpoint.compared")
ASSUMPTIONS = ["round 1 may normalise arbitrarily (or reject the interface: counted, not a deviation); rounds 2..4 must be "
               "the identity on the observed interface", "`_internal` (carried original docstring/body) is not part of the "
               "compared interface but is passed on to the next emission, as cdd itself does"]


def streams(ctx):
    return [("wide", ctx.scale(600, 5000)), ("legal", ctx.scale(350, 3000)), ("announced", ctx.scale(400, 3000)),
            ("undocumented", ctx.scale(300, 2000)), ("similar", ctx.scale(150, 1500)),
            ("code_defaults", ctx.scale(200, 1500)), ("return_code_default", ctx.scale(150, 1500))]


# container / union / dotted types whose defaults are written as code (```[3, 4]```), the form every non-literal default has
CODE_DEFAULTS = {"List[int]": ("```[3, 4]```", "```[]```", "```list(range(3))```"), "Tuple[int, int]": ("```(1, 2)```",),
                 "Optional[List[int]]": ("```[1]```",), "Union[int, float]": ("```2 ** 3```", "```max(1, 2)```"),
                 "dict": ("```{}```", "```dict(a=1)```"), "np.ndarray": ("```np.empty(0)```",), "List[float]": ("```[0.5]```",),
                 "Callable[[int], int]": ("```abs```",)}


def gen_case(ctx, stream, idx):
    r = ctx.rng(stream, idx)
    if stream == "wide":
        # code-quoted and dotted-string defaults are C01's `default-cut-at-dot` family: kept out of this stream
        ir = irgen.rand_ir(r, nparams=r.randint(0, 5), suffix_defaults=r.random() < 0.5,
                           default_kinds=tuple(k for k in irgen.DEFAULT_KINDS if k not in ("code", "strdot")),
                           doc_kinds=("plain", "trigger", "trigger", "multiline", "stop"), with_return=r.random() < 0.5)
    elif stream == "undocumented":
        # a summary line only: parameters without description (their types live in annotations / columns), no
        # documented return - the emitted docstring has no parameter / return marker at all
        ir = irgen.rand_ir(r, nparams=r.randint(0, 4), type_kinds=("int", "float", "str", "bool", "optional"),
                           default_kinds=("absent", "int", "float", "str", "bool"), doc_kinds=("none",),
                           with_return=False, all_defaults=r.random() < 0.7)
        if r.random() < 0.2:
            ir["doc"] = ""
    elif stream == "code_defaults":
        ir = irgen.rand_ir(r, nparams=r.randint(1, 3), type_kinds=("int", "float", "str", "bool"),
                           default_kinds=("int", "float", "str", "bool"), doc_kinds=("plain", "stop"), all_defaults=True,
                           with_return=False)
        for nm in r.sample([n for n in irgen.NAMES[:24] if n not in ir["params"]], r.randint(1, 3)):
            typ = r.choice(sorted(CODE_DEFAULTS))
            ir["params"][nm] = {"typ": typ, "doc": irgen.rand_doc(r, stop=False), "default": r.choice(CODE_DEFAULTS[typ])}
        if r.random() < 0.5:
            typ = r.choice(sorted(CODE_DEFAULTS))
            ir["returns"] = OrderedDict((("return_type", {"typ": typ, "doc": irgen.rand_doc(r, stop=False),
                                                         "default": r.choice(CODE_DEFAULTS[typ])}),))
    elif stream == "return_code_default":
        # what a function returns, recorded as the return entry's default (a code expression), under return types that do
        # and do not mention `str`: the one entry whose default is read before its type is known
        ir = irgen.rand_ir(r, nparams=r.randint(0, 3), type_kinds=("int", "float", "str", "bool"),
                           default_kinds=("int", "float", "str", "bool"), doc_kinds=("plain",), all_defaults=True, with_return=False)
        typ, dflt = r.choice((("Tuple[Model, str]", "(model, name)"), ("str", "name_of(model)"), ("Dict[str, float]", "dict(loss=loss)"),
                              ("Optional[str]", "label or name"), ("Tuple[int, int]", "(epochs, epochs)"), ("int", "total"),
                              ("List[str]", "names"), ("float", "loss")))
        ir["returns"] = OrderedDict((("return_type", {"typ": typ, "doc": irgen.rand_doc(r, stop=False), "default": "```%s```" % dflt}),))
    elif stream == "similar":
        ir = irgen.similar_ir(r, with_return=r.random() < 0.4, all_defaults=r.random() < 0.5)
    elif stream == "announced":
        # hand-written descriptions that announce their default in prose (any spelling) and carry no default key yet:
        # round 1 extracts the default, rounds 2..4 must not re-announce it
        ir = irgen.rand_ir(r, nparams=r.randint(1, 4), type_kinds=("int", "float", "str", "bool"), default_kinds=("absent",),
                           doc_kinds=("plain",), with_return=False)
        for p in ir["params"].values():
            if r.random() < 0.3:
                # the Keras/TF convention: the description itself says the parameter is optional
                p["doc"] = r.choice(("Optional %s", "(Optional) %s", "Optional, %s")) % p["doc"]
                p["typ"] = r.choice((p["typ"], "Optional[%s]" % p["typ"]))
                continue
            if r.random() < 0.7:
                v = {"int": r.choice(("32", "7", "-4")), "float": r.choice(("0.5", "2.0")), "str": r.choice(("mnist", "a_b")),
                     "bool": r.choice(("True", "False"))}[p["typ"]]
                p["doc"] = p["doc"].rstrip(".") + r.choice((", defaults to %s", ". Defaults to %s", " (defaults to %s)",
                                                             ", defaults to %s. Must be set early", ". Default value is %s",
                                                             " (Defaults to %s)")) % v
    else:
        ir = irgen.rand_ir(r, nparams=r.randint(1, 5), type_kinds=("int", "float", "str", "bool", "optional", "literal",
                                                                    "list", "union"),
                           default_kinds=("absent", "int", "negint", "zero", "float", "negfloat", "bool", "str", "strspace"),
                           doc_kinds=("plain", "trigger", "stop", "punct"), with_return=r.random() < 0.5)
    return ir


def json_ok(ir):
    ok = ("int", "float", "str", "bool", "dict", "list")
    return all(irgen.base_of(p["typ"]) in ok or irgen.base_of(p["typ"]).startswith("Literal[") for p in ir["params"].values())


def view(ir):
    c = canon(ir)
    return c


def first_diff(a, b):
    if a["doc"] != b["doc"]:
        return "ir.doc", a["doc"], b["doc"]
    na, nb = [k for k, _ in a["params"]], [k for k, _ in b["params"]]
    if na != nb:
        return "names", na, nb
    for (k, pa), (_, pb) in zip(a["params"], b["params"]):
        for f in sorted(set(pa) | set(pb), key=str):
            if pa.get(f) != pb.get(f):
                return "param.%s" % f, pa.get(f), pb.get(f)
    ra, rb = a["returns"], b["returns"]
    if (ra is None) != (rb is None):
        return "returns.presence", ra, rb
    if ra:
        for f in sorted(set(ra["return_type"]) | set(rb.get("return_type", {})), key=str):
            if ra["return_type"].get(f) != rb.get("return_type", {}).get(f):
                return "return.%s" % f, ra["return_type"].get(f), rb.get("return_type", {}).get(f)
    if a["name"] != b["name"]:
        return "name", a["name"], b["name"]
    return "other", None, None


def how_of(field, x, y):
    """value-free description of a drift"""
    if isinstance(x, (list, tuple)) and isinstance(y, (list, tuple)) and len(x) == 2 and len(y) == 2:
        tx, vx = x
        ty, vy = y
        if tx != ty:
            return "type:%s->%s" % (tx, ty)
        if isinstance(vx, str) and isinstance(vy, str):
            if vy.startswith(vx) and vy != vx:
                tail = vy[len(vx):]
                return "grows:" + ("whitespace" if not tail.strip() else "dot" if tail.strip() == "." else "None"
                                   if tail.strip().strip(".") == "None" else "text")
            if vx.startswith(vy):
                return "shrinks"
            if "<ast." in vy or "object at 0x" in vy:
                return "ast-repr"
            if vx.replace("Optional[", "").rstrip("]") == vy.replace("Optional[", "").rstrip("]"):
                return "optional-wrapping"
        return "value"
    if x is None or y is None:
        return "lost" if y is None else "gained"
    if isinstance(x, str) and isinstance(y, str):
        if y.startswith(x):
            tail = y[len(x):]
            return "grows:" + ("whitespace" if not tail.strip() else "dot" if tail.strip() == "." else "text")
        if x.startswith(y):
            return "shrinks:" + ("whitespace" if not x[len(y):].strip() else "text")
        return "value"
    return "value"


def ws_only(x, y):
    sx = x[1] if isinstance(x, (list, tuple)) and len(x) == 2 else x
    sy = y[1] if isinstance(y, (list, tuple)) and len(y) == 2 else y
    return isinstance(sx, str) and isinstance(sy, str) and "".join(sx.split()) == "".join(sy.split())


def guessed_type_with_default(ir0, cur):
    """round 1 replaced a declared type by one guessed from a trigger word while keeping the default"""
    for k, p in (cur.get("params") or {}).items():
        p0 = ir0["params"].get(k)
        if p0 is not None and "default" in p and p.get("typ") != p0.get("typ"):
            return True
    return False


def drifting_param_start_type(ir0, a, b):
    """declared type (in the interface the history started from) of the first parameter that differs between two views"""
    for (k, pa), (_, pb) in zip(a["params"], b["params"]):
        if pa != pb:
            return (ir0["params"].get(k) or {}).get("typ")
    return None


def mechanism(fmt, style, field, x, y, exc=None, contradiction=False, start_typ=None):
    """known-finding mechanism of a drift, from format / style / field / direction (value-free)"""
    gn = style in ("google", "numpydoc")
    if contradiction and fmt in ("class", "pydantic", "function") and (exc is not None or field == "param.default"):
        return "class.trigger-word-type-contradicts-default"
    x = list(x) if isinstance(x, tuple) else x
    y = list(y) if isinstance(y, tuple) else y
    if exc is not None:
        name, msg = type(exc).__name__, repr(exc)
        if fmt == "function" and name == "SyntaxError" and "<ast." in msg:
            return "function.negative-default-under-str-hint-leaks-ast"
        if fmt in ("class", "pydantic") and name == "TypeError" and "unhashable type: 'dict'" in msg:
            return "class.dict-default-unhashable-on-re-emission"
        if fmt in ("class", "pydantic") and name == "TypeError" and "object is not iterable" in msg:
            return "class.trigger-word-type-contradicts-default"
        if fmt == "docstring" and name == "ValueError" and "malformed node or string" in msg:
            return "docstring.default-cut-at-dot-or-unquoted"
        if gn and fmt == "docstring" and name in ("TypeError", "ValueError") and ("float" in msg or "int()" in msg):
            return "docstring.google-numpydoc.second-round-drift"
        return None
    if fmt in ("class", "pydantic") and field == "param.default" and isinstance(x, list) and isinstance(y, list) and \
            isinstance(x[1], str) and y[1] == "```%s```" % x[1]:
        return "class.trigger-word-type-contradicts-default"  # str default re-quoted as code under a guessed type
    if fmt == "docstring" and field in ("param.default", "return.default") and isinstance(y, list) and y[1] == "(None)":
        return "docstring.none-default-becomes-text"
    if field == "param.None":
        return "sqlalchemy.parse.none-key-oscillates"
    if fmt.startswith("sqlalchemy") and field == "ir.doc" and ws_only(x, y):
        return "sqlalchemy.class-doc-whitespace-grows"
    bare_container = irgen.base_of(start_typ or "") in ("dict", "list")  # (keyed to the types it was observed for)
    if fmt == "argparse" and bare_container and field == "param.default" and x == ["str", irgen.NONE_STR] and y is None:
        return "argparse.none-default-dict-type-second-round"
    if fmt == "argparse" and bare_container and field == "param.typ" and isinstance(x, list) and isinstance(y, list) and \
            x[1].startswith("Optional[") and y[1] == "Optional[str]":
        return "argparse.none-default-dict-type-second-round"
    # the two Google / NumPy regeneration findings are keyed to the (field, direction) pairs they were observed with on
    # the unchanged tree (thorough tier, 248 k histories): a drift of any other field - names, return type, presence of
    # the return entry, ... - is a new deviation
    how = how_of(field, x, y) if field else None
    if gn and fmt not in ("docstring", "argparse", "json_schema") and field in ("ir.doc", "return.doc"):
        return "docstring.google-numpydoc.indented-docstring-misparsed"
    if gn and fmt == "docstring" and (
            field in ("ir.doc", "param.default", "return.default")
            or (field == "param.doc" and how == "grows:text")
            or (field == "param.typ" and how == "optional-wrapping")
            or (field == "return.doc" and how in ("grows:text", "value"))):
        return "docstring.google-numpydoc.second-round-drift"
    return None


def run_case(ctx, P, stream, idx):
    ir0 = gen_case(ctx, stream, idx)
    sh = irgen.shape(ir0)
    legal = irgen.defaults_form_suffix(ir0)
    for fmt in FORMATS:
        if fmt == "json_schema" and not json_ok(ir0):
            continue
        if stream == "code_defaults" and fmt not in ("class", "pydantic", "function"):
            # code-quoted defaults are followed through the formats that carry a default as code (assignment / signature);
            # through docstring prose and argparse strings they belong to the families recorded under C01 / C02
            # (default-cut-at-dot, loads-typed argparse defaults)
            continue
        if stream == "return_code_default" and fmt not in ("json_schema", "docstring", "function"):
            continue  # (the formats that carry a return entry's default)
        styles = STYLES if (legal and fmt != "json_schema") else ("rest",)
        if stream == "return_code_default":
            styles = ("rest",)
        for style in styles:
            kw = {} if fmt == "json_schema" else {"docstring_format": style}
            feats = "fmt=%s,style=%s" % (fmt, style)
            cur, prev_view = ir0, None
            ok1 = False
            for rnd in range(1, 5):
                try:
                    src, nxt = hops.hop(cur, fmt, kw)
                    P.monitor("round.observed")
                except Exception as e:
                    if rnd == 1:
                        P.count("round1.rejected:%s" % fmt)
                    else:
                        src_s = repr(e)
                        how = "ast-repr" if "ast." in str(cur) and isinstance(e, SyntaxError) else type(e).__name__
                        mech = mechanism(fmt, style, None, None, None, exc=e,
                                         contradiction=guessed_type_with_default(ir0, cur))
                        P.deviation((mech + "|" if mech else "") + "fixpoint.re-emission-raises.%s|%s,round=%d" % (
                            type(e).__name__, feats, rnd),
                                    "round %d raises %r although round %d succeeded" % (rnd, e, rnd - 1),
                                    {"stream": stream, "idx": idx, "format": fmt, "style": style, "round": rnd,
                                     "start": ir0, "before_round": cur})
                    break
                ok1 = True
                nxt_full = dict(nxt)
                nxt_full.setdefault("name", ir0["name"])
                if nxt_full.get("name") is None:
                    nxt_full["name"] = ir0["name"]
                v = view(nxt_full)
                if rnd >= 2:
                    P.monitor("fixpoint.compared")
                    if v != prev_view:
                        field, x, y = first_diff(prev_view, v)
                        mech = mechanism(fmt, style, field, x, y, contradiction=guessed_type_with_default(ir0, cur),
                                         start_typ=drifting_param_start_type(ir0, prev_view, v))
                        P.deviation((mech + "|" if mech else "") + "fixpoint.drift.%s.%s|%s,round=%d" % (
                            field, how_of(field, x, y), feats, rnd),
                                    "round %d changed %s: %r -> %r" % (rnd, field, x, y),
                                    {"stream": stream, "idx": idx, "format": fmt, "style": style, "round": rnd,
                                     "start": ir0, "before": prev_view, "after": v, "emitted": src})
                        break
                prev_view = v
                cur = nxt_full
            P.case({"ir": ir0, "fmt": fmt, "style": style}, nontrivial=ok1, klass="%s/%s/%s" % (stream, fmt, style),
                   sample={"format": fmt, "style": style, "shape": sh, "start": ir0})


if __name__ == "__main__":
    sys.exit(core.main(sys.modules[__name__]))
