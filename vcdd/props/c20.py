"""C20 — exmod --dry-run writes nothing; a real run stays inside the output directory.

Generated package trees are installed into the site-packages of a throw-away venv (created
offline, chained to the repository's interpreter); `python -m cdd exmod ...` runs in a subprocess
of that venv under the audit-event wrapper (M2) and the file-system snapshot monitor (M3) whose
root covers the venv, the source package, the output directory and its parents.
"""

import ast
import json
import os
import shutil
import subprocess
import sys
import tempfile

from vcdd import REPO, VERIF_ROOT, core
from vcdd.gen import pkggen
from vcdd.monitors import fsnap

PID = "C20"
EMITS = ("class", "class", "argparse", "sqlalchemy", "sqlalchemy_table", "sqlalchemy_hybrid", "json_schema", "function",
         "pydantic")
RULE = ("generated package trees (1..3 levels, 1..3 sub-packages, classes re-exported through __init__/__all__) installed in "
        "a throw-away venv x emit kind x recursive x blacklist/whitelist subsets x dry-run x output directory pre-existing / "
        "absent / inside / outside the package x --emit-sqlalchemy-submodule; a case = one exmod invocation; distinct by "
        "content digest; non-trivial = all (every case checks the snapshot)")
REQUIRED_MONITORS = ("exmod.run", "dry-run.snapshot.compared", "dry-run.audit.checked", "real-run.confined",
                     "generated.python.checked", "exclusion.checked", "exmod.succeeded.real", "exmod.succeeded.dry",
                     "exclusion.siblings.checked")
ASSUMPTIONS = ["the audit log also catches an open(...,'a').close() that leaves no trace in a snapshot",
               "configurations that raise (e.g. --emit sqlalchemy on this tree: TypeError unexpected keyword) are "
               "'rejected' but remain subject to the dry-run / confinement clauses for whatever they did before failing",
               "exclusion is checked at the two gates the code has: the exposed module's own FQN (blacklist / whitelist) "
               "and find_packages include/exclude patterns for recursive sub-packages"]
SHARD = {}
BUDGET_S = {"quick": 500, "thorough": 3000}


def streams(ctx):
    return [("invocations", ctx.scale(240, 3000))]


def setup_shard(ctx, P):
    root = tempfile.mkdtemp(prefix="vcdd-c20-")
    vpy, purelib = pkggen.make_venv(root)
    SHARD.update(root=root, vpy=vpy, purelib=purelib)


def finish_shard(ctx, P):
    shutil.rmtree(SHARD.get("root", "/nonexistent"), ignore_errors=True)


def all_names_resolvable(tree):
    allv = None
    bound = set()
    for n in tree.body:
        if isinstance(n, (ast.Import, ast.ImportFrom)):
            for a in n.names:
                if a.name == "*":
                    return None, None
                bound.add((a.asname or a.name).split(".")[0])
        elif isinstance(n, (ast.ClassDef, ast.FunctionDef, ast.AsyncFunctionDef)):
            bound.add(n.name)
        elif isinstance(n, (ast.Assign, ast.AnnAssign)):
            tgts = n.targets if isinstance(n, ast.Assign) else [n.target]
            for t in tgts:
                if isinstance(t, ast.Name):
                    bound.add(t.id)
                    if t.id == "__all__" and n.value is not None:
                        try:
                            allv = list(ast.literal_eval(n.value))
                        except Exception:
                            allv = None
    return allv, bound


def run_case(ctx, P, stream, idx):
    r = ctx.rng(stream, idx)
    root, vpy, purelib = SHARD["root"], SHARD["vpy"], SHARD["purelib"]
    # where the exposed package lives: installed (site-packages of the venv) or a source checkout on PYTHONPATH
    checkout = ctx.rng(stream, idx, "where-src").random() < 0.35
    if checkout:
        purelib = os.path.join(root, "case%d" % idx, ctx.rng(stream, idx, "src-dir").choice(("src", "src", "Src", "MyLib")))
    # (letter case is part of a name: CamelCase distributions exist, and so do capitals in a checkout's path)
    pkg = ("Pkg%dKit_%d" if ctx.rng(stream, idx, "pkg-case").random() < 0.3 else "pkg%d_%d") % (ctx.seed, idx)
    case_dir = os.path.join(root, "case%d" % idx)
    os.makedirs(case_dir)
    log = tempfile.mktemp(prefix="vcdd-c20-audit-")
    try:
        if checkout:
            os.makedirs(purelib)
        desc = pkggen.gen_package(r, purelib, pkg)
        sub = r.choice(desc["subpackages"])
        module = r.choice((pkg, sub, sub))
        emit = r.choice(EMITS)
        dry = r.random() < 0.5
        recursive = r.random() < 0.5
        # every 12th case is the sibling scenario: the whole package, recursively, for real, several --blacklist flags
        sib_case = idx % 12 == 5 and len(desc["subpackages"]) >= 2
        if sib_case:
            module, dry, recursive = pkg, False, True
        sa_sub = emit.startswith("sqlalchemy") and r.random() < 0.6
        where = r.choice(("outside", "outside", "inside", "nested-absent", "named-gold", "named-module", "named-module"))
        # the target module name defaults to `gold`; a directory named after it - or after the exposed module, the
        # natural choice (`-m shopkit -o build/shopkit`) - is compared with the module names inside exmod
        target = r.choice((None, None, "api"))
        out = {"outside": os.path.join(case_dir, "out"), "inside": os.path.join(purelib, pkg, "_generated"),
               "nested-absent": os.path.join(case_dir, "a", "b", "out"),
               "named-gold": os.path.join(case_dir, "x", target or "gold"),
               "named-module": os.path.join(case_dir, "y", *module.split("."))}[where]
        pre_exists = where != "nested-absent" and r.random() < 0.6
        if pre_exists:
            os.makedirs(out)
            if r.random() < 0.3:
                with open(os.path.join(out, "keep.txt"), "w") as f:
                    f.write("keep")
        excl = r.choice(("none", "none", "blacklist-self", "whitelist-other", "blacklist-deep", "whitelist-self"))
        siblings = [sp.rpartition(".")[2] for sp in desc["subpackages"]]
        if sib_case:
            excl = "blacklist-siblings"
        black_sibs = r.sample(siblings, r.randint(2, len(siblings))) if excl == "blacklist-siblings" else []
        argv = [vpy, os.path.join(VERIF_ROOT, "vcdd", "monitors", "auditwrap.py"), log, "cdd", "exmod", "-m", module, "--emit",
                emit, "-o", out]
        if dry:
            argv.append("--dry-run")
        if recursive:
            argv.append("-r")
        if sa_sub:
            argv.append("--emit-sqlalchemy-submodule")
        if target:
            argv += ["--target-module-name", target]
        if excl == "blacklist-self":
            argv += ["--blacklist", module]
        elif excl == "whitelist-other":
            argv += ["--whitelist", pkg + ".nonexistent_other"]
        elif excl == "whitelist-self":
            argv += ["--whitelist", module]
        elif excl == "blacklist-deep":
            argv += ["--blacklist", "deep"]
        elif excl == "blacklist-siblings":
            for sb in black_sibs:  # one flag per entry, as documented ([--blacklist BLACKLIST])
                argv += ["--blacklist", sb]
        cfg = {"module": module.replace(pkg, "PKG"), "emit": emit, "dry_run": dry, "recursive": recursive,
               "sqlalchemy_submodule": sa_sub, "output": where, "output_pre_exists": pre_exists, "exclusion": excl, "target_module_name": target,
               "package_location": "checkout on PYTHONPATH" if checkout else "site-packages"}
        src_snap = fsnap.snapshot(os.path.join(purelib, pkg))
        snap0 = fsnap.snapshot(root)
        # (the command runs under its own string-hash seed, as a user's invocation does; the harness under 0)
        env = dict(os.environ, PYTHONPATH=REPO + (os.pathsep + purelib if checkout else ""), PYTHONDONTWRITEBYTECODE="1",
                   PYTHONHASHSEED=str(1 + (idx * 31) % 9973))
        pr = subprocess.run(argv, cwd=case_dir, env=env, stdout=subprocess.PIPE, stderr=subprocess.PIPE, timeout=600)
        P.monitor("exmod.run")
        snap1 = fsnap.snapshot(root)
        diff = fsnap.diff(snap0, snap1)
        events = []
        if os.path.exists(log):
            with open(log) as f:
                events = [json.loads(l) for l in f if l.strip()]
        # importing the third-party formatter `black` probes its own cache directory for writability (a temp
        # file under ~/.cache/black/<version>, created and removed at import time, independent of any input or
        # flag): trusted-base behaviour, not an effect of exmod
        black_cache = os.path.join(os.path.expanduser("~"), ".cache", "black")
        n_all = len(events)
        events = [e for e in events if black_cache not in json.dumps(e)]
        P.count("audit.events.black-cache-probe", n_all - len(events))
        feats = "emit=%s,dry=%s,r=%s,sa_sub=%s,out=%s/%s,excl=%s" % (emit, dry, recursive, sa_sub, where,
                                                                      "exists" if pre_exists else "absent", excl)
        err_last = (pr.stderr.decode().strip().splitlines() or [""])[-1]
        w = {"stream": stream, "idx": idx, "config": cfg, "package": {k: v["symbols"] for k, v in desc["modules"].items()},
             "exit": pr.returncode, "stderr_tail": pr.stderr.decode()[-400:], "stdout_tail": pr.stdout.decode()[-400:]}
        P.case({"cfg": cfg, "pkg": w["package"]}, klass="emit=%s/dry=%s" % (emit, dry),
               sample={"config": cfg, "package_modules": list(desc["modules"]), "exit": pr.returncode})

        def dev(kind, what, **extra):
            P.deviation("exmod.%s|%s" % (kind, feats), what, dict(w, **extra))

        if pr.returncode != 0:
            # the property does not promise that exmod succeeds; a failing run is still checked for confinement.
            # Failures are counted per emit kind and error type (evidence), and a run set in which no real run
            # produced Python leaves the required monitor `generated.python.checked` at zero => inconclusive
            P.count("rejected.%s:%s" % (emit, err_last.split(":")[0][:30]))
        else:
            P.monitor("exmod.succeeded.%s" % ("dry" if dry else "real"))

        changed = [p for p in fsnap.changed_paths(diff)]
        rel_out = os.path.relpath(out, root)
        if dry:
            P.monitor("dry-run.snapshot.compared")
            if changed:
                dev("dry-run-changed-filesystem", "--dry-run created/modified/deleted: %r" % changed[:6], paths=changed[:20])
            P.monitor("dry-run.audit.checked")
            if events:
                dev("dry-run-write-events", "--dry-run issued file-system mutating calls: %r" % events[:3], events=events[:10])
        else:
            P.monitor("real-run.confined")
            parents = set()
            p_ = rel_out
            while p_ and p_ != ".":
                parents.add(p_ + "/")
                p_ = os.path.dirname(p_)
            outside = [p for p in changed if not (p == rel_out + "/" or p.startswith(rel_out + "/") or p in parents)]
            if outside:
                gold_parent_init = os.path.relpath(os.path.join(os.path.dirname(out), "__init__.py"), root)
                mech = ""
                if where == "named-gold" and set(outside) <= {gold_parent_init}:
                    mech = "exmod.output-dir-named-like-target-module-writes-parent-init|"
                P.deviation(mech + "exmod.real-run-escaped-output-dir|%s" % feats,
                            "paths outside the output directory changed: %r" % outside[:6], dict(w, paths=outside[:20]))
            # directories are made without an open(): the audit log's os.mkdir events are held to the same confinement
            made = [e for e in events if e["event"] == "os.mkdir"]
            P.count("audit.events.mkdir", len(made))
            out_real = os.path.realpath(out)
            esc_dirs = []
            for e in made:
                try:
                    d_ = os.path.realpath(os.path.join(case_dir, ast.literal_eval(e["args"][0])))
                except Exception:
                    continue
                if not (d_ == out_real or d_.startswith(out_real + os.sep) or out_real.startswith(d_ + os.sep)):
                    esc_dirs.append(d_)
            if esc_dirs:
                dev("real-run-mkdir-outside", "directories made outside the output directory: %r" % esc_dirs[:4], dirs=esc_dirs[:10])
            after_src = fsnap.snapshot(os.path.join(purelib, pkg))
            if where == "inside":
                after_src = {k: v for k, v in after_src.items() if not k.startswith("_generated") and k != "./"}
                src_cmp = {k: v for k, v in src_snap.items() if not k.startswith("_generated") and k != "./"}
            else:
                src_cmp = src_snap
            if after_src != src_cmp:
                dev("source-package-modified", "the source package changed: %r" % fsnap.changed_paths(
                    fsnap.diff(src_cmp, after_src))[:6])
            esc = [e for e in events if e["event"] == "open-for-write" and not os.path.realpath(
                os.path.join(case_dir, e["path"])).startswith(os.path.realpath(out))]
            if esc:
                gold_init = os.path.realpath(os.path.join(os.path.dirname(out), "__init__.py"))
                mech = ""
                if where == "named-gold" and all(os.path.realpath(os.path.join(case_dir, e["path"])) == gold_init for e in esc):
                    mech = "exmod.output-dir-named-like-target-module-writes-parent-init|"
                P.deviation(mech + "exmod.real-run-write-outside|%s" % feats,
                            "write-mode open outside the output directory: %r" % esc[:3], dict(w, events=esc[:10]))
            # every generated .py parses and its __all__ names resolve
            gen_files = [p for p in diff["created"] + diff["modified"] if p.endswith(".py")]
            for p in gen_files:
                P.monitor("generated.python.checked")
                with open(os.path.join(root, p)) as f:
                    text = f.read()
                try:
                    tree = ast.parse(text)
                    compile(text, p, "exec")  # (what the grammar accepts the compiler may still refuse: a repeated keyword)
                except SyntaxError as e:
                    dev("generated-not-python", "%s does not parse: %r" % (os.path.basename(p), e), file=p, text=text[:1500])
                    continue
                allv, bound = all_names_resolvable(tree)
                if allv is not None:
                    undefined = [a for a in allv if a not in bound]
                    if undefined:
                        dev("generated-all-undefined", "%s: __all__ names %r are neither defined nor imported" % (
                            p.replace(pkg, "PKG"), undefined[:5]), file=p, text=text[:1500])
            # exclusion gates
            P.monitor("exclusion.checked")
            emitted_py = [p for p in diff["created"] if p.endswith((".py", ".json"))
                          and "/sqlalchemy_mod/" not in p]  # scaffolding requested by --emit-sqlalchemy-submodule
            if excl in ("blacklist-self", "whitelist-other") and module != pkg and not recursive and emitted_py:
                dev("excluded-module-emitted", "module excluded by %s still produced %r" % (excl, emitted_py[:5]))
            if excl == "blacklist-siblings" and recursive:
                P.monitor("exclusion.siblings.checked")
                # (a name excludes that package, not the packages nested in it: `beta` leaves `beta.deep` in, as
                # setuptools' find_packages(exclude=...) which implements the option does)
                rel = [(p, os.path.relpath(os.path.join(root, p), out).split(os.sep)) for p in emitted_py]
                hit = [p for p, parts in rel if parts[0] in black_sibs and not (len(parts) > 2 and parts[1] == "deep")]
                if hit:
                    dev("excluded-sibling-emitted", "sub-packages excluded by --blacklist %s produced %r" % (
                        " --blacklist ".join(black_sibs), hit[:5]))
            if excl == "blacklist-deep" and recursive:
                deep = [p for p in emitted_py if os.path.relpath(os.path.join(root, p), out).split(os.sep)[0] == "deep"]
                if deep:
                    # mechanism: the output directory carries the target module's name, so emit_file_on_hierarchy lays
                    # the file of a symbol that the (not excluded) parent re-exports out under <out>/deep/ instead of
                    # <out>/ - the excluded package is re-created although the recursion into it was skipped
                    mech = ("exmod.output-dir-named-like-target-module-recreates-excluded-package|"
                            if where == "named-gold" else "")
                    P.deviation(mech + "exmod.excluded-subpackage-emitted|%s" % feats,
                                "sub-package excluded by --blacklist deep produced %r" % deep[:5], w)
    finally:
        if os.environ.get("VCDD_KEEP"):  # debugging aid: keep a copy of the case for inspection
            shutil.copytree(case_dir, os.path.join(os.environ["VCDD_KEEP"], os.path.basename(case_dir)), dirs_exist_ok=True)
            shutil.copytree(os.path.join(purelib, pkg), os.path.join(os.environ["VCDD_KEEP"], pkg), dirs_exist_ok=True)
        shutil.rmtree(os.path.join(purelib, pkg), ignore_errors=True)
        shutil.rmtree(case_dir, ignore_errors=True)
        if os.path.exists(log):
            os.remove(log)


if __name__ == "__main__":
    sys.exit(core.main(sys.modules[__name__]))
