"""C05 — SQLAlchemy declarative class / Table / hybrid class round-trip and agree.

Monitor: M1 postconditions on the three real `cdd.sqlalchemy.emit.*` functions. Each renders the
AST, re-reads the text, parses it with the matching parser and compares columns with the
snapshotted interface; a structural monitor counts `primary_key=True` keywords in the emitted
AST; the per-interface driver then checks that the three parsed interfaces agree pairwise.
"""

import ast
import sys
from collections import OrderedDict
from copy import deepcopy
from itertools import product

import cdd.sqlalchemy.emit
import cdd.sqlalchemy.parse
from cdd.shared.source_transformer import to_code

from vcdd import core
from vcdd.gen import irgen
from vcdd.monitors import contracts
from vcdd.oracle import hops
from vcdd.oracle.ircmp import cmp_ir, canon

PID = "C05"
VARIANTS = ("sqlalchemy", "sqlalchemy_table", "sqlalchemy_hybrid")
STYLES = ("rest", "google", "numpydoc")
RULE = ("interfaces over int/float/str/bool/dict, Optional[..] without non-None default, Literal[str..]; 0 or 1 '[PK]' "
        "marker, PK-candidate names (*_id, id, *_name), '[FK(t.c)]' markers; each emitted as declarative class, Table "
        "and hybrid class x 3 docstring styles x force_pk_id; a case = (interface, variant, style, force_pk_id); "
        "distinct by content digest; non-trivial = at least one column")
REQUIRED_MONITORS = ("sqlalchemy.emit.post", "sqlalchemy_table.emit.post", "sqlalchemy_hybrid.emit.post",
                     "primary_key.counted", "variants.agree")
ASSUMPTIONS = [
    "when no [PK] is declared the emitter may promote exactly one candidate column (*_id, id_*, *_name, id) or append "
    "an `id` integer column; the comparator accepts exactly these two outcomes",
    "a column's description is compared modulo whitespace, a terminal full stop and the [PK] prefix of a promoted column",
]
CUR = {}
T_KINDS = ("int", "float", "str", "bool", "dict", "optional", "literal")
D_KINDS = ("absent", "int", "negint", "zero", "float", "negfloat", "bool", "str", "strspace", "strodd", "strquote")
PK_NAMES = ("id", "node_id", "dataset_name", "id_code")


def streams(ctx):
    return [("random", ctx.scale(3000, 12000))]


def gen_case(ctx, stream, idx):
    r = ctx.rng(stream, idx)
    n = r.randint(1, 6)
    if idx % 5 == 4:
        # columns that resemble each other (shared name prefixes, identical comments / types / defaults)
        ir = irgen.similar_ir(r, type_kinds=("int", "float", "str", "bool", "literal"), default_kinds=D_KINDS, with_return=False)
    else:
        ir = irgen.rand_ir(r, nparams=n, type_kinds=T_KINDS, default_kinds=D_KINDS, suffix_defaults=False,
                           with_return=False, doc_kinds=("plain", "plain", "stop", "punct", "quoted"))
    # Optional[..] columns carry no non-None default in this domain
    for p in ir["params"].values():
        if p["typ"].startswith("Literal[") and r.random() < 0.3:
            p["typ"] = "Optional[%s]" % p["typ"]  # a nullable Enum column
        if p["typ"].startswith("Optional["):
            p.pop("default", None)
    rd = __import__("random").Random(r.random())
    if rd.random() < 0.2:
        # a comment that opens with a dot (a file name, a fraction, an ellipsis): only a *trailing* full stop is punctuation
        k_ = rd.choice(list(ir["params"]))
        if ir["params"][k_].get("doc"):
            ir["params"][k_]["doc"] = rd.choice((".env %s", ".5 means %s", "...or %s", ".%s")) % ir["params"][k_]["doc"]
    mode = r.choice(("declared", "declared", "candidate", "two_candidates", "none", "id_plain"))
    names = list(ir["params"])
    params = ir["params"]
    if mode == "declared":
        k = r.choice(names)
        # (a primary key may come without any description: the marker alone)
        params[k]["doc"] = "[PK]" if r.random() < 0.25 else "[PK] " + params[k]["doc"]
        params[k].pop("default", None)
        if params[k]["typ"].startswith("Optional["):
            params[k]["typ"] = "int"
    elif mode in ("candidate", "two_candidates", "id_plain"):
        newnames = list(names)
        picks = {"candidate": [r.choice(PK_NAMES)], "two_candidates": ["node_id", "dataset_name"],
                 "id_plain": ["id"]}[mode]
        for j, nm in enumerate(picks[:len(newnames)]):
            newnames[j] = nm
        r.shuffle(newnames)
        ir["params"] = params = OrderedDict((nn, params[on]) for nn, on in zip(newnames, names))
        for nm in picks:
            if nm in params:
                params[nm]["typ"] = "int" if "id" in nm else "str"
                params[nm].pop("default", None)
    # foreign keys on some int columns
    for k, p in params.items():
        if p["typ"] == "int" and "default" not in p and not p["doc"].startswith("[PK]") and not is_candidate(k) \
                and r.random() < 0.3:
            p["doc"] = "[FK(%s.%s)] %s" % (r.choice(("node", "element_tbl")), r.choice(("node_id", "id")), p["doc"])
    ir["_pk_mode"] = mode
    return ir


def _snap_ir(intermediate_repr):
    return deepcopy(intermediate_repr)


def is_candidate(k):
    return "_name" in k or "_id" in k or "id_" in k or k == "id"


def strip_pk(doc):
    doc = doc or ""
    return doc[len("[PK]"):].strip() if doc.startswith("[PK]") else doc


def compare_columns(ir, back, cfg):
    """-> list of diffs, implementing the PK expectation stated in ASSUMPTIONS"""
    out = []
    exp_names, got_names = list(ir["params"]), list(back["params"])
    declared = [k for k, p in ir["params"].items() if (p.get("doc") or "").startswith("[PK]")]
    got_pk = [k for k, p in back["params"].items() if (p.get("doc") or "").startswith("[PK]")]
    base = {"index": -1, "n": len(exp_names), "tkind": "-", "dkind": "-"}
    if len(got_pk) != 1:
        out.append(dict(base, where="pk", field="count", how="count=%d" % len(got_pk), exp=declared, got=got_pk))
        return out
    appended = got_names == exp_names + ["id"] and "id" not in exp_names
    if got_names != exp_names and not appended:
        out.append(dict(base, where="names", field="names", how="differ", exp=exp_names, got=got_names))
        return out
    pk = got_pk[0]
    if declared:
        if [pk] != declared or appended:
            out.append(dict(base, where="pk", field="which", how="declared-not-kept", exp=declared, got=got_pk))
    else:
        cands = [k for k in exp_names if is_candidate(k)]
        if appended:
            ok = pk == "id" and back["params"]["id"].get("typ") == "int" and (
                cfg["force_pk_id"] or len(cands) != 1)
        else:
            ok = pk in cands and (pk == "id" or (len(cands) == 1 and not cfg["force_pk_id"]))
        if not ok:
            out.append(dict(base, where="pk", field="which", how="inference", exp=cands, got=got_pk + [appended]))
    exp = deepcopy(ir)
    got = deepcopy(back)
    if appended:
        del got["params"]["id"]
    for d_ in (exp, got):
        for k, p in d_["params"].items():
            p["doc"] = strip_pk(p.get("doc"))
    out += cmp_ir(exp, got, returns=False)
    return out


def count_pk(node):
    return sum(1 for n in ast.walk(node) if isinstance(n, ast.keyword) and n.arg == "primary_key"
               and isinstance(n.value, ast.Constant) and n.value.value is True)


def observe(variant, ir, node, cfg):
    P = CUR.get("P")
    if P is None or CUR.get("busy"):
        return True
    if CUR.get("variant") != variant:
        # nested call (the hybrid emitter builds its `__table__` through sqlalchemy_table with
        # internal arguments): only the emission the caller asked for is an API-boundary event
        P.monitor("nested.emit.skipped")
        return True
    CUR["busy"] = True
    try:
        P.monitor(variant + ".emit.post")
        npk = count_pk(node)
        P.monitor("primary_key.counted")
        if npk != 1:
            _dev(P, variant, ir, cfg, {"where": "pk", "field": "keyword-count", "how": "count=%d" % npk, "tkind": "-",
                                       "dkind": "-"}, None)
        try:
            src = to_code(node)
            back = hops.parse(src, variant)
            P.monitor(variant + ".parse.called")
        except Exception as e:
            _dev(P, variant, ir, cfg, {"where": "parse", "field": "raises", "how": type(e).__name__,
                                       "got": repr(e)[:200], "tkind": "-", "dkind": "-"}, None)
            return True
        CUR.setdefault("parsed", {})[(variant, cfg["style"], cfg["force_pk_id"])] = back
        for d in compare_columns(ir, back, cfg):
            _dev(P, variant, ir, cfg, d, src)
        return True
    finally:
        CUR["busy"] = False


def post_sqlalchemy(intermediate_repr, docstring_format, force_pk_id, result, OLD):
    return observe("sqlalchemy", OLD.ir, result, {"style": docstring_format, "force_pk_id": force_pk_id})


def post_table(intermediate_repr, docstring_format, force_pk_id, result, OLD):
    return observe("sqlalchemy_table", OLD.ir, result, {"style": docstring_format, "force_pk_id": force_pk_id})


def post_hybrid(intermediate_repr, docstring_format, force_pk_id, result, OLD):
    return observe("sqlalchemy_hybrid", OLD.ir, result, {"style": docstring_format, "force_pk_id": force_pk_id})


def classify(variant, ir, cfg, d):
    where, field, how, tk, dk = d["where"], d["field"], d["how"], d["tkind"], d["dkind"]
    generic = "%s.%s.%s.%s" % (variant, where, field, how)
    detail = "style=%s,force=%s,t=%s,d=%s,pk=%s" % (cfg["style"], cfg["force_pk_id"], tk, dk, ir.get("_pk_mode"))
    if where == "param" and field == "doc" and d.get("name") == "id" and tk == "int" and d.get("got") == "":
        return "sqlalchemy.id-column-comment-dropped|" + generic + "," + detail
    if where == "param" and field == "typ" and tk == "dict" and how == "dict->optional":
        return "sqlalchemy.dict-column-becomes-optional|" + generic + "," + detail
    return generic + "|" + detail


def _dev(P, variant, ir, cfg, d, text):
    P.deviation(classify(variant, ir, cfg, d),
                "%s: %s %s %s: expected %r got %r" % (variant, d["where"], d["field"], d["how"], d.get("exp"),
                                                     d.get("got")),
                {"stream": CUR.get("stream"), "idx": CUR.get("idx"), "variant": variant, "config": cfg, "ir": ir,
                 "emitted": text, "diff": d})


def setup_shard(ctx, P):
    snap = [("ir", _snap_ir)]
    contracts.attach(cdd.sqlalchemy.emit, "sqlalchemy", post_sqlalchemy, snap)
    contracts.attach(cdd.sqlalchemy.emit, "sqlalchemy_table", post_table, snap)
    contracts.attach(cdd.sqlalchemy.emit, "sqlalchemy_hybrid", post_hybrid, snap)


def columns_view(ir):
    c = canon(ir)
    return [(k, {f: v for f, v in p.items() if f in ("typ", "default", "doc")}) for k, p in c["params"]]


def run_case(ctx, P, stream, idx):
    ir = gen_case(ctx, stream, idx)
    mode = ir.pop("_pk_mode")
    ir_tagged = dict(ir, _pk_mode=mode)
    CUR.update(P=P, stream=stream, idx=idx, parsed={})
    sh = irgen.shape(ir)
    for style, force in product(STYLES, (False, True)):
        for variant in VARIANTS:
            P.case({"ir": ir, "variant": variant, "style": style, "force": force}, nontrivial=bool(ir["params"]),
                   klass="%s/%s" % (mode, variant),
                   sample={"variant": variant, "style": style, "force_pk_id": force, "pk_mode": mode, "ir": ir})
            CUR["variant"] = variant
            try:
                hops.emit(ir_tagged, variant, docstring_format=style, force_pk_id=force)
            except Exception as e:
                _dev(P, variant, ir_tagged, {"style": style, "force_pk_id": force},
                     {"where": "emit", "field": "raises", "how": type(e).__name__, "got": repr(e)[:200], "tkind": "-",
                      "dkind": "-"}, None)
        # cross-variant agreement for this (style, force)
        got = [CUR["parsed"].get((v, style, force)) for v in VARIANTS]
        if all(g is not None for g in got):
            P.monitor("variants.agree")
            views = [columns_view(g) for g in got]
            for v, view in zip(VARIANTS[1:], views[1:]):
                if view != views[0]:
                    diff = [(a, b) for a, b in zip(views[0], view) if a != b][:2]
                    _dev(P, v, ir_tagged, {"style": style, "force_pk_id": force},
                         {"where": "variants", "field": "disagree", "how": "vs-sqlalchemy", "tkind": "-", "dkind": "-",
                          "exp": diff, "got": None}, None)
    CUR.update(P=None)


if __name__ == "__main__":
    sys.exit(core.main(sys.modules[__name__]))
