"""C12 — sync makes every target equivalent to the truth, then is a no-op.

Observed at the real CLI (`python -m cdd sync ...`) in a subprocess, under the file-system
snapshot monitor (M3): files before/after each of 1..3 consecutive runs; each named target is
re-parsed with the matching real parser and compared with the truth's interface; every other
top-level / class-level node must be `ast.dump`-identical.
"""

import ast
import os
import shutil
import subprocess
import sys
import tempfile
from copy import deepcopy

from vcdd import REPO, core
from vcdd.gen import irgen
from vcdd.monitors import fsnap
from vcdd.oracle import hops
from vcdd.oracle.ircmp import cmp_ir

PID = "C12"
RULE = ("triples (class file, function/method file, argparse file) whose named targets hold mutually different generated "
        "interfaces, or are missing / empty / lack the target, surrounded by unrelated definitions x truth in {class, "
        "function, argparse_function} x 1..3 consecutive runs; a case = (triple, truth); distinct by content digest; "
        "non-trivial = at least one target differs from the truth")
REQUIRED_MONITORS = ("sync.run", "target.reparsed", "outside.compared", "second-run.compared", "fs.snapshot.compared",
                     "target.defaults-vs-truth.compared")
ASSUMPTIONS = ["interfaces are in the common domain of the three formats (scalar / Optional / Literal types, every "
               "parameter has a default, no return entry), so C02's normalisations suffice",
               "'code outside the named targets is unchanged' is decided on the AST (sync re-renders the whole file), docstrings "
               "modulo re-indentation (inspect.cleandoc); 'byte-identical on a second run' is decided on the bytes"]
T = ("int", "float", "str", "bool", "literal")
D = ("int", "negint", "float", "bool", "str", "strspace", "zero", "zero", "strodd", "strbad")  # incl. falsy defaults (0, 0.0,
# False) and strings made of delimiter characters (quotes, backslash, '#', '%', braces, ...)
STATES = ("differs", "differs", "differs", "missing", "empty", "absent", "equal")
KINDS = ("class", "function", "argparse_function")
BUDGET_S = {"quick": 400, "thorough": 3000}


def streams(ctx):
    return [("triples", ctx.scale(200, 2500)), ("two_projects", ctx.scale(24, 300)), ("return_default_probe", ctx.scale(16, 150))]


T_WIDE = T + ("optional", "list", "union")


PROBE = [False]  # stream return_default_probe: truths whose return entry carries a default (bound to one recorded finding)


def rand_ir(r, name):
    if r.random() < 0.5 or PROBE[0]:
        # (a fifth of these interfaces document what they return: type and description, no default - numeric return defaults
        # crash two emitters of the unchanged tree, see DESIGN 2.2)
        wr = __import__("random").Random(r.random()).random() < 0.2
        return irgen.rand_ir(r, nparams=r.randint(1, 4), type_kinds=T, default_kinds=D, all_defaults=True,
                             with_return=wr or PROBE[0], return_default=PROBE[0], name=name,
                             doc_kinds=("plain", "plain", "punct"))
    # wider: compound types and required parameters (signature-legal: defaults form a suffix)
    return irgen.rand_ir(r, nparams=r.randint(1, 5), type_kinds=T_WIDE, default_kinds=D + ("absent",), with_return=False,
                         name=name)


def render(kind, ir, method):
    """source of a file holding the target `kind` with interface `ir`, plus unrelated definitions"""
    return _render(kind, ir, method, {"word_wrap": False} if ir.get("_long") else {})


def _render(kind, ir, method, kw):
    ir = {k: v for k, v in ir.items() if k != "_long"}
    if kind == "class":
        body = hops.emit(dict(ir, name="ConfigClass"), "class", **kw)[1]
        return "import os\n\nX = 1\n\n\n%s\n\n\ndef other():\n    return 2\n" % body, "ConfigClass"
    if kind == "function":
        if method:
            src = hops.emit(dict(ir, name="method"), "function", function_type=method, **kw)[1]
            return ("class C(object):\n    Z = 3\n\n%s\n\n    def keep(self):\n        return 1\n\n\nW = 5\n" %
                    "\n".join("    " + l if l.strip() else l for l in src.split("\n"))), "C.method"
        src = hops.emit(dict(ir, name="funky"), "function", function_type="static", **kw)[1]
        return "import sys\n\n\ndef before():\n    return 0\n\n\n%s\n\n\nW = 5\n" % src, "funky"
    src = hops.emit(ir, "argparse", **kw)[1]
    return "import argparse\n\nY = 2\n\n\n%s\n\n\ndef after_it():\n    return 3\n" % src, "set_cli_args"


def without_target(kind, method):
    return {"class": "import os\n\nX = 1\n\n\ndef other():\n    return 2\n",
            "function": "class C(object):\n    Z = 3\n\n    def keep(self):\n        return 1\n\n\nW = 5\n" if method else
            "import sys\n\n\ndef before():\n    return 0\n\n\nW = 5\n",
            "argparse_function": "import argparse\n\nY = 2\n\n\ndef after_it():\n    return 3\n"}[kind]


def find(tree, dotted):
    node = tree
    for part in dotted.split("."):
        for sub in node.body:
            if isinstance(sub, (ast.ClassDef, ast.FunctionDef, ast.AsyncFunctionDef)) and sub.name == part:
                node = sub
                break
        else:
            return None
    return node


def plain_order(kind, src, name):
    """parameter names of the target in declaration order, read with `ast` only"""
    try:
        node = find(ast.parse(src), name)
    except SyntaxError:
        return None
    if node is None:
        return None
    if kind == "class":
        return [n.target.id for n in node.body if isinstance(n, ast.AnnAssign) and isinstance(n.target, ast.Name)] + [
            t.id for n in node.body if isinstance(n, ast.Assign) for t in n.targets if isinstance(t, ast.Name)]
    if kind == "function":
        a = node.args
        return [x.arg for x in a.posonlyargs + a.args + a.kwonlyargs if x.arg not in ("self", "cls")]
    return [n.value.args[0].value[2:] for n in ast.walk(node) if isinstance(n, ast.Expr) and isinstance(n.value, ast.Call)
            and getattr(n.value.func, "attr", None) == "add_argument" and n.value.args
            and isinstance(n.value.args[0], ast.Constant) and str(n.value.args[0].value).startswith("--")]


def undocument_some(r, src):
    """drop the `:param x:` lines of two or more parameters from a function's ReST docstring (a partially documented
    truth: what the docstring leaves out must come from the signature, in the signature's order)"""
    lines = src.split("\n")
    idx = [i for i, l in enumerate(lines) if l.strip().startswith(":param ")]
    if len(idx) < 3:
        return src
    drop = set(r.sample(idx, r.randint(2, len(idx) - 1)))
    out, skip_blank = [], False
    for i, l in enumerate(lines):
        if i in drop:
            skip_blank = True
            continue
        if skip_blank and not l.strip():
            skip_blank = False
            continue
        skip_blank = False
        out.append(l)
    return "\n".join(out)


def parse_target(kind, src, name):
    tree = ast.parse(src)
    node = find(tree, name)
    if node is None and "." in name:
        node = find(tree, name.split(".")[-1])  # a created file holds the bare function
    if node is None:
        return None
    import cdd.argparse_function.parse
    import cdd.class_.parse
    import cdd.function.parse

    parser = {"class": cdd.class_.parse.class_, "function": cdd.function.parse.function,
              "argparse_function": cdd.argparse_function.parse.argparse_ast}[kind]
    return parser(deepcopy(node))


class _CleanDocstrings(ast.NodeTransformer):
    """docstrings modulo re-indentation (sync re-renders the whole file and re-indents docstrings: formatting, not code)"""

    def generic_visit(self, node):
        super().generic_visit(node)
        body = getattr(node, "body", None)
        if isinstance(node, (ast.Module, ast.ClassDef, ast.FunctionDef, ast.AsyncFunctionDef)) and body and isinstance(
                body[0], ast.Expr) and isinstance(body[0].value, ast.Constant) and isinstance(body[0].value.value, str):
            import inspect

            body[0].value.value = inspect.cleandoc(body[0].value.value)
        return node


def outside_dump(src, name):
    """dump of every top-level / class-level node other than the target"""
    tree = _CleanDocstrings().visit(ast.parse(src))
    parts = name.split(".")
    out = []
    for n in tree.body:
        if isinstance(n, (ast.ClassDef, ast.FunctionDef)) and n.name == parts[0]:
            if len(parts) == 2 and isinstance(n, ast.ClassDef):
                out.append("class %s:" % n.name + "|".join(ast.dump(s) for s in n.body if not (
                    isinstance(s, ast.FunctionDef) and s.name == parts[1])))
            continue
        out.append(ast.dump(n))
    return out


def run_sync(d, names, truth, hashseed="0"):
    argv = [sys.executable, "-m", "cdd", "sync", "--class", "cls.py", "--class-name", names["class"], "--function", "fn.py",
            "--function-name", names["function"], "--argparse-function", "argp.py", "--argparse-function-name",
            names["argparse_function"], "--truth", truth]
    # every run of the command gets its own string-hash seed, as separate invocations by a user do (the harness itself,
    # which reads the truth for comparison, runs under PYTHONHASHSEED=0)
    env = dict(os.environ, PYTHONPATH=REPO, PYTHONDONTWRITEBYTECODE="1", PYTHONHASHSEED=hashseed)
    pr = subprocess.run(argv, cwd=d, env=env, stdout=subprocess.PIPE, stderr=subprocess.PIPE, timeout=300)
    return pr.returncode, pr.stdout.decode(), pr.stderr.decode()[-600:]


DRIVER = """import os, sys, shutil
import cdd.__main__
argv = ["sync", "--class", "cls.py", "--class-name", "ConfigClass", "--function", "fn.py", "--function-name", "funky",
        "--argparse-function", "argp.py", "--argparse-function-name", "set_cli_args", "--truth", "class"]
os.chdir("project_a"); cdd.__main__.main(list(argv)); os.chdir("..")
shutil.copytree("project_a", "project_a_after_call_1")
os.chdir("project_b"); cdd.__main__.main(list(argv)); os.chdir("..")
"""


def run_two_projects(ctx, P, stream, idx):
    """one process, two projects: `sync` is given the same *relative* file names twice, from two working directories (a
    build script that walks over packages). Every call makes the files named in *that* call equivalent to *its* truth;
    the first project is byte for byte what the first call left."""
    r = ctx.rng(stream, idx)
    d = tempfile.mkdtemp(prefix="vcdd-c12-")
    try:
        truths = {}
        for proj in ("project_a", "project_b"):
            os.mkdir(os.path.join(d, proj))
            ir = rand_ir(r, "ConfigClass")
            truths[proj] = ir
            with open(os.path.join(d, proj, "cls.py"), "w") as f:
                f.write(render("class", ir, None)[0])
            if r.random() < 0.5:  # (an empty / missing function or argparse file is created by the command)
                with open(os.path.join(d, proj, "fn.py"), "w") as f:
                    f.write("")
        with open(os.path.join(d, "driver.py"), "w") as f:
            f.write(DRIVER)
        env = dict(os.environ, PYTHONPATH=REPO, PYTHONDONTWRITEBYTECODE="1")
        pr = subprocess.run([sys.executable, "driver.py"], cwd=d, env=env, stdout=subprocess.PIPE, stderr=subprocess.PIPE,
                            timeout=300)
        P.monitor("sync.run")
        P.monitor("two-projects.run")
        P.case({"a": truths["project_a"], "b": truths["project_b"]}, klass="two_projects", sample={"exit": pr.returncode})
        w = {"stream": stream, "idx": idx, "stderr": pr.stderr.decode()[-500:]}
        if pr.returncode != 0:
            P.deviation("sync.two-projects.command-fails|" + (pr.stderr.decode().strip().splitlines() or ["?"])[-1].split(":")[0][:30],
                        "the driver (two sync calls in one process) exited %d" % pr.returncode, w)
            return
        snap_a, snap_1 = fsnap.snapshot(os.path.join(d, "project_a")), fsnap.snapshot(os.path.join(d, "project_a_after_call_1"))
        P.monitor("fs.snapshot.compared")
        if snap_a != snap_1:
            P.deviation("sync.two-projects.first-project-touched-by-second-call|",
                        "the second call (other working directory, same relative names) changed files of the first project: %r"
                        % fsnap.changed_paths(fsnap.diff(snap_1, snap_a))[:5], w)
        for proj in ("project_a", "project_b"):
            names = list(truths[proj]["params"])
            for fn, kind, name in (("cls.py", "class", "ConfigClass"), ("fn.py", "function", "funky"),
                                   ("argp.py", "argparse_function", "set_cli_args")):
                p = os.path.join(d, proj, fn)
                P.monitor("target.names-vs-truth.compared")
                try:
                    with open(p) as f:
                        got = list(parse_target(kind, f.read(), name)["params"])
                except Exception as e:
                    P.deviation("sync.two-projects.target-missing-or-unparsable|%s" % kind,
                                "%s/%s: %r" % (proj, fn, e), w)
                    continue
                if got != names:
                    P.deviation("sync.two-projects.target-differs-from-its-truth|%s" % kind,
                                "%s/%s has parameters %r, the truth of that project has %r" % (proj, fn, got, names), w)
    finally:
        shutil.rmtree(d, ignore_errors=True)


def run_case(ctx, P, stream, idx):
    if stream == "two_projects":
        return run_two_projects(ctx, P, stream, idx)
    PROBE[0] = stream == "return_default_probe"
    r = ctx.rng(stream, idx)
    method = r.random() < 0.5
    if method:
        # the receiver of the method: an instance method, or - a third of the time - a classmethod (first argument cls)
        method = ctx.rng(stream, idx, "receiver").choice(("self", "self", "cls"))
    files = {"class": "cls.py", "function": "fn.py", "argparse_function": "argp.py"}
    irs = {k: rand_ir(r, "Foo") for k in KINDS}
    truth = r.choice(KINDS)
    r_long = ctx.rng(stream, idx, "longdoc")
    if r_long.random() < 0.25:
        # descriptions longer than any wrap column, written on one line (what a hand-written truth holds): every target
        # is to carry them as they are
        for k in KINDS:
            irs[k]["_long"] = True
        for p in r_long.sample(list(irs[truth]["params"].values()), min(len(irs[truth]["params"]), r_long.randint(1, 2))):
            p["doc"] = irgen.rand_doc(r_long, r_long.randint(20, 30), stop=False)
    states = {k: ("truth" if k == truth else r.choice(STATES)) for k in KINDS}
    d = tempfile.mkdtemp(prefix="vcdd-c12-")
    try:
        names, srcs = {}, {}
        for k in KINDS:
            ir = irs[truth] if states[k] == "equal" else irs[k]
            src, names[k] = render(k, ir, method)
            if k == "function" and k == truth and ctx.rng(stream, idx, "partial").random() < 0.4:
                src = undocument_some(ctx.rng(stream, idx, "partial2"), src)
            r_md = ctx.rng(stream, idx, "moddoc", k)
            if r_md.random() < 0.3:
                # a module docstring on top of the file (code outside the named targets: it must not change, run after run)
                src = r_md.choice(('"""Settings of the trainer"""\n\n', '"""\nSettings of the trainer\n"""\n\n',
                                   '"""\nSettings of the trainer\n\nSecond paragraph.\n"""\n\n')) + src
            if states[k] == "empty":
                src = ""
            elif states[k] == "absent":
                src = without_target(k, method)
            srcs[k] = src
            if states[k] != "missing":
                with open(os.path.join(d, files[k]), "w") as f:
                    f.write(src)
        with open(os.path.join(d, "bystander.py"), "w") as f:
            f.write("Z = 1\n")
        w = {"stream": stream, "idx": idx, "truth": truth, "states": states, "method": method, "files_before": srcs}
        feats = "truth=%s" % truth
        P.case({"srcs": srcs, "truth": truth, "states": states},
               nontrivial=any(s in ("differs", "missing", "empty", "absent") for s in states.values()),
               klass="truth=%s/%s" % (truth, ",".join("%s:%s" % (k[:4], states[k]) for k in KINDS if k != truth)),
               sample={"truth": truth, "states": states, "truth_source": srcs[truth][:400]})
        gold = parse_target(truth, srcs[truth], names[truth])
        # the truth's own parameter order, read without cdd: signature (function), attribute order (class),
        # add_argument order (argparse)
        truth_order = plain_order(truth, srcs[truth], names[truth])
        truth_names_plain = set(truth_order) if truth_order is not None else None
        if truth == "function" and gold is not None:
            # (the function parser lists the documented parameters first, in docstring order, then the others in
            # signature order: that reading - taken here in this process - is the truth's interface)
            truth_order = list(gold["params"])
        prev = None
        for rnd in range(1, ctx.rng(stream, idx, "rounds").randint(2, 3) + 1):
            snap0 = fsnap.snapshot(d)
            rc, out, err = run_sync(d, names, truth, hashseed=str(1 + (idx * 31 + rnd * 7) % 9973))
            P.monitor("sync.run")
            snap1 = fsnap.snapshot(d)
            now = {}
            for k in KINDS:
                p = os.path.join(d, files[k])
                now[k] = open(p).read() if os.path.exists(p) else None
            if rc != 0:
                P.count("sync.exit-nonzero")
                last = err.strip().splitlines()[-1] if err.strip() else ""
                mech = ""
                cdd_frames = [l for l in err.splitlines() if "/cdd/" in l and l.strip().startswith("File")]
                if stream == "return_default_probe" and cdd_frames and cdd_frames[-1].split("/cdd/")[-1].startswith((
                        "argparse_function/emit.py", "function/emit.py")):
                    # (the innermost package frame is an emitter working on the return entry's default)
                    mech = "sync.non-str-return-default-crashes-emitter|"
                P.deviation(mech + "sync.command-fails|%s,round=%d,%s" % (feats, rnd, last.split(":")[0][:40]),
                            "sync exited %d: %s" % (rc, last[:200]), dict(w, round=rnd, stderr=err))
                break
            P.monitor("fs.snapshot.compared")
            touched = [p for p in fsnap.changed_paths(fsnap.diff(snap0, snap1)) if p not in files.values() and p != "./"]
            if touched:
                P.deviation("sync.other-file-touched|" + feats, "files outside the listed ones changed: %r" % touched,
                            dict(w, round=rnd, touched=touched))
            if rnd == 1:
                for k in KINDS:
                    st = states[k]
                    key_feats = "%s,target=%s,state=%s" % (feats, k, st)
                    if now[k] is None:
                        P.deviation("sync.target-file-not-created|" + key_feats, "%s was not created" % files[k],
                                    dict(w, target=k))
                        continue
                    try:
                        ast.parse(now[k])
                        compile(now[k], files[k], "exec")  # (the compiler refuses more than the grammar does)
                    except SyntaxError as e:
                        P.deviation("sync.output-not-python|" + key_feats, "%s does not parse: %r" % (files[k], e),
                                    dict(w, target=k, after=now[k]))
                        continue
                    try:
                        got = parse_target(k, now[k], names[k])
                    except Exception as e:
                        P.deviation("sync.target-unparsable|" + key_feats, "target %s cannot be parsed back: %r" % (
                            names[k], e), dict(w, target=k, after=now[k]))
                        continue
                    P.monitor("target.reparsed")
                    if got is None:
                        P.deviation("sync.target-missing-after|" + key_feats, "target %s not found in %s after sync" % (
                            names[k], files[k]), dict(w, target=k, after=now[k]))
                        continue
                    unchanged_file = now[k] == srcs[k]
                    # what a correct sync writes into a target of format k is the truth's interface *emitted in
                    # format k*; comparing with that emission re-read by the matching parser cancels the per-format
                    # normalisations and quirks (C02's business) and isolates what sync itself does
                    if k == truth:
                        exp = deepcopy(gold)
                    else:
                        try:
                            exp = hops.hop(dict(deepcopy(gold), name=gold.get("name") or "Foo"),
                                           {"class": "class", "function": "function", "argparse_function": "argparse"}[k],
                                           {"function_type": method if method else "static"} if k == "function" else {})[1]
                        except Exception:
                            P.count("expectation.unavailable")
                            continue
                    for dd in cmp_ir(exp, got, returns=False):
                        mech = None
                        if k in ("function", "argparse_function") and st in ("differs", "equal") and unchanged_file:
                            mech = "sync.function-target-never-rewritten"
                        key = "sync.target-differs-from-truth.%s.%s.%s|%s,t=%s,d=%s" % (
                            dd["where"], dd["field"], dd["how"], key_feats, dd["tkind"], dd["dkind"])
                        P.deviation((mech + "|" if mech else "") + key,
                                    "after sync --truth %s the %s target differs: %s %s %s expected %r got %r" % (
                                        truth, k, dd["where"], dd["field"], dd["how"], dd.get("exp"), dd.get("got")),
                                    dict(w, target=k, after=now[k], diff=dd))
                    # independent of the emitters (the expectation above is itself produced by them): a plain scalar
                    # default of the truth must be found, same value and same Python type, in every target
                    if truth_names_plain is not None and not unchanged_file:
                        # a name the truth does not have (read with `ast` only: the receiver of a method is not one)
                        P.monitor("target.names-vs-truth.compared")
                        extra = [n_ for n_ in got["params"] if n_ not in truth_names_plain and n_ != "return_type"]
                        if extra:
                            P.deviation("sync.target-has-names-the-truth-lacks|%s,receiver=%s" % (key_feats, method or "-"),
                                        "after sync --truth %s the %s target has %r, which the truth (%r) does not" % (
                                            truth, k, extra, sorted(truth_names_plain)), dict(w, target=k, after=now[k]))
                    if truth_order is not None:
                        P.monitor("target.order-vs-truth.compared")
                        got_order = [n_ for n_ in got["params"] if n_ in truth_order]
                        if got_order != [n_ for n_ in truth_order if n_ in got["params"]] and not (
                                k in ("function", "argparse_function") and st in ("differs", "equal") and unchanged_file):
                            P.deviation("sync.target-order-differs-from-truth|%s" % key_feats,
                                        "after sync --truth %s the %s target lists %r, the truth %r" % (
                                            truth, k, list(got["params"]), truth_order), dict(w, target=k, after=now[k]))
                    # descriptions, against the truth directly and with their line structure (the comparison above
                    # collapses whitespace): a target whose description has the truth's words on other lines differs
                    P.monitor("target.descriptions-vs-truth.compared")
                    for pn, gp in gold["params"].items():
                        tp = got["params"].get(pn)
                        if tp is None or not gp.get("doc") or not tp.get("doc"):
                            continue
                        g_, t_ = gp["doc"].strip(), tp["doc"].strip()
                        if g_ != t_ and " ".join(g_.split()) == " ".join(t_.split()):
                            P.deviation("sync.target-description-relaid|%s" % key_feats,
                                        "after sync --truth %s the %s target's description of %s has other line breaks: %r "
                                        "(truth %r)" % (truth, k, pn, t_, g_), dict(w, target=k, after=now[k], param=pn))
                    P.monitor("target.defaults-vs-truth.compared")
                    if list(got["params"]) == list(gold["params"]):
                        for pn, gp in gold["params"].items():
                            gd = gp.get("default")
                            if "default" not in gp or type(gd) not in (int, float, bool) and not (
                                    isinstance(gd, str) and not gd.startswith("```")):
                                continue
                            td = got["params"][pn].get("default", "<absent>")
                            if type(td) is not type(gd) or td != gd:
                                mech = None
                                if k in ("function", "argparse_function") and st in ("differs", "equal") and unchanged_file:
                                    mech = "sync.function-target-never-rewritten"
                                P.deviation((mech + "|" if mech else "") + "sync.target-default-differs-from-truth|%s,t=%s,d=%s" % (
                                    key_feats, irgen.type_kind_of(gp.get("typ")), irgen.default_kind_of(gp)),
                                            "after sync --truth %s the %s target has %s=%r, the truth has %r" % (
                                                truth, k, pn, td, gd), dict(w, target=k, after=now[k], param=pn))
                    # the truth's return description, as the generator wrote it (read by nobody's parser), is in the text of
                    # every target this run wrote
                    rdoc = ((irs[truth].get("returns") or {}).get("return_type") or {}).get("doc")
                    # (an argparse truth keeps its return entry only together with a default - the documented normalisation)
                    if rdoc and rdoc.strip() and now[k] != srcs[k] and k != truth and not irs[truth].get("_long") and \
                            truth != "argparse_function":
                        P.monitor("target.return-description-vs-source.compared")
                        squash = lambda t: " ".join(t.split())
                        if squash(rdoc).rstrip(".") not in squash(now[k]):
                            P.deviation("sync.target-return-description-differs-from-source|" + key_feats,
                                        "after sync --truth %s the %s target does not carry the truth's return description %r"
                                        % (truth, k, rdoc), dict(w, target=k, after=now[k]))
                    # code outside the target is unchanged (AST level)
                    if st in ("differs", "equal", "truth", "absent") and srcs[k].strip():
                        P.monitor("outside.compared")
                        if outside_dump(srcs[k], names[k]) != outside_dump(now[k], names[k]):
                            P.deviation(("sync.method-target-created-at-top-level|" if k == "function" and method
                                         and st == "absent" else "") + "sync.outside-code-changed|" + key_feats,
                                        "definitions other than the target changed in %s" % files[k],
                                        dict(w, target=k, after=now[k]))
                    if k == truth and now[k] != srcs[k]:
                        # the truth file may be re-rendered but its interface must be the same
                        pass
            else:
                P.monitor("second-run.compared")
                for k in KINDS:
                    if now[k] != prev[k]:
                        mech = ""
                        try:
                            fmt_only = ast.dump(ast.parse(prev[k])) == ast.dump(ast.parse(now[k]))
                        except Exception:
                            fmt_only = False
                        if k == "function" and method and states[k] in ("missing", "absent", "empty"):
                            mech = "sync.method-target-created-at-top-level|"
                        elif fmt_only and states[k] in ("missing", "absent", "empty") and rnd == 2:
                            mech = "sync.appended-target-reformatted-on-second-run|"
                        P.deviation(mech + "sync.not-idempotent|%s,target=%s,state=%s,round=%d,formatting_only=%s" % (
                            feats, k, states[k], rnd, fmt_only),
                                    "run %d changed %s again" % (rnd, files[k]),
                                    dict(w, target=k, round=rnd, before=prev[k], after=now[k]))
            prev = now
    finally:
        shutil.rmtree(d, ignore_errors=True)


if __name__ == "__main__":
    sys.exit(core.main(sys.modules[__name__]))
