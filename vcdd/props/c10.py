"""C10 — output is a deterministic function of the input alone.

Monitor M5: the same generated bundle of invocations (vcdd/monitors/bundle.py) is executed in
fresh subprocesses that differ only in PYTHONHASHSEED and in call history (order, reversed, each
case twice, unrelated conversions interleaved); each prints one sha256 per case; the oracle demands
one digest per case across all configurations.
"""

import json
import os
import subprocess
import sys

from vcdd import REPO, VERIF_ROOT, core
from vcdd.monitors.bundle import KINDS

PID = "C10"
RULE = ("a seeded bundle of invocations (%d kinds: %s) executed per configuration in a fresh interpreter; configurations "
        "= PYTHONHASHSEED {0,1,2,3,random} (quick) / {0..15, 4 x random} (thorough) x history {order, reversed, twice, "
        "interleaved}; a case = one (invocation, configuration) execution; distinct = distinct invocations x "
        "configurations; non-trivial = the invocation returned in at least one configuration" % (len(KINDS), ", ".join(KINDS)))
REQUIRED_MONITORS = ("digest.compared", "config.run")
ASSUMPTIONS = ["a dependence on the hash seed that shows for one seed in 2^32 is out of reach of a sample of seeds",
               "file names handed to commands are relative and identical in every configuration"]
CHUNK = 16
HISTORIES = ("order", "reversed", "twice", "interleaved")
BUDGET_S = {"quick": 400, "thorough": 3000}


def hashseeds(ctx):
    return ["0", "1", "2", "3", "random"] if not ctx.thorough else [str(i) for i in range(16)] + ["random"] * 4


def streams(ctx):
    return [("bundle", ctx.scale(16, 48))]


def run_config(ctx, first, count, hs, history):
    env = dict(os.environ, PYTHONPATH="%s:%s" % (REPO, VERIF_ROOT), PYTHONHASHSEED=hs, PYTHONDONTWRITEBYTECODE="1")
    pr = subprocess.run([sys.executable, "-m", "vcdd.monitors.bundle", str(ctx.seed), str(first), str(count), history],
                        env=env, cwd=VERIF_ROOT, stdout=subprocess.PIPE, stderr=subprocess.PIPE, timeout=600)
    for line in pr.stdout.decode().splitlines():
        if line.startswith("BUNDLE "):
            return json.loads(line[7:])
    raise RuntimeError("bundle worker failed (hashseed=%s history=%s): %s" % (hs, history, pr.stderr.decode()[-800:]))


def run_case(ctx, P, stream, idx):
    first = idx * CHUNK
    results = {}
    configs = [(hs, h) for hs in hashseeds(ctx) for h in HISTORIES]
    if not ctx.thorough:
        # quick: every hash seed in order, the other histories under two seeds
        configs = [(hs, "order") for hs in hashseeds(ctx)] + [(hs, h) for hs in ("0", "random") for h in HISTORIES[1:]]
    for n, (hs, h) in enumerate(configs):
        results[(n, hs, h)] = run_config(ctx, first, CHUNK, hs, h)
        P.monitor("config.run")
    case_ids = sorted(set(k for res in results.values() for k in res))
    for cid in case_ids:
        digests = {}
        for (n, hs, h), res in results.items():
            digests.setdefault(res.get(cid, "missing"), []).append("%s/%s" % (hs, h))
        kind = cid.split(":", 1)[1]
        returned = any(not d.startswith("raised:") and d != "skipped" for d in digests)
        P.bulk(len(results), len(results) if returned else 0, klass=kind,
               sample={"case": cid, "configurations": len(results), "digests": list(digests)})
        P.monitor("digest.compared")
        if len(digests) > 1:
            unstable = any(d.startswith("UNSTABLE") for d in digests)
            P.deviation("nondeterminism.%s|%s" % (kind, "in-process" if unstable else "across-configurations"),
                        "%s: %d distinct outputs over %d configurations" % (cid, len(digests), len(results)),
                        {"stream": stream, "idx": idx, "case": cid, "seed": ctx.seed,
                         "digests": {d: cfgs[:6] for d, cfgs in digests.items()}})


if __name__ == "__main__":
    sys.exit(core.main(sys.modules[__name__]))
