"""C15 — docstring prose outside the parameter section is preserved.

(1) M1 postcondition on the real `parse_docstring_into_header_args_footer` (so it also fires when
the emitter calls it): for a docstring split against itself the three parts concatenate back
exactly (strict at indentation 0; at indentation >= 1 after removing the re-indentation the
function itself applies to the current section).
(2) Conversion monitor: docstring in style S -> real parser (plain docstring parser and the function
parser, which carries the original docstring) -> real emitter in style T: every non-blank header
line must occur, in order, as a whole line of the output, and no header/footer prose may be
absorbed into a parameter's or the return's type or default.
"""

import ast
import sys
from copy import deepcopy

import cdd.docstring.emit
import cdd.docstring.parse
import cdd.function.emit
import cdd.function.parse
import cdd.shared.docstring_utils
from cdd.shared.source_transformer import to_code

from vcdd import core
from vcdd.gen import corpus, docgen, irgen
from vcdd.monitors import contracts

PID = "C15"
STYLES = ("rest", "google", "numpydoc")
RULE = ("docstrings composed of a 1..3-paragraph header, a generated parameter/return section in one of 3 styles (typed, "
        "0..5 parameters with defaults) and an optional footer (notes / examples / doctest / raises / usage) at "
        "indentation 0..2, with and without leading newline; each split against itself and converted to each of the 3 "
        "target styles through both parsers; a case = (docstring, target style, route); distinct by content digest; "
        "non-trivial = the docstring has a parameter/return section")
REQUIRED_MONITORS = ("split.post", "split.strict.checked", "conversion.header.checked", "conversion.absorption.checked")
ASSUMPTIONS = ["the split function is specified to return the *current* section re-indented to the original's position: "
               "strict concatenation is demanded at indentation 0, and modulo that re-indentation at indentation >= 1",
               "header lines are compared modulo surrounding whitespace (indentation is the emitter's business)"]
CUR = {}


def streams(ctx):
    return [("docstrings", ctx.scale(2500, 40000)), ("keyword_prose", ctx.scale(800, 12000)),
            ("format_prose", ctx.scale(800, 12000)), ("file_route", ctx.scale(60, 900)),
            ("corpus", len(corpus.docstrings()))]


# prose carrying what a template engine, a %-format, a shell or a markup language would interpret (to a docstring converter
# it is text)
FORMAT_WORDS = ["{x}", "{{placeholder}}", "{name: value}", "{}", "{", "}", "%s", "%(name)s", "100%", "$var", "${HOME}", "\\n",
                "\\t", "{0}", "<tag>", "&amp;", "|", "~", "{_tab}", "{name}", "%d items", "{!r}"]


def post_split(current_doc_str, original_doc_str, result):
    P = CUR.get("P")
    if P is None:
        return True
    P.monitor("split.post")
    if current_doc_str != original_doc_str or not isinstance(original_doc_str, str) or not original_doc_str:
        return True  # the concatenation identity is stated for a docstring split against itself
    d = original_doc_str
    header, middle, footer = (x or "" for x in result)
    feats = CUR.get("feats", "?")

    def dev(kind, what):
        mech = ""
        if kind == "header-footer-overlap" and "S=google" in feats and "footer=Raises" in feats and \
                "params=False,ret=False" in feats and len(header) + len(footer) == len(d) + 1:
            mech = "docstring.split.sectionless-google-raises-overlap|"
        P.deviation(mech + "split.%s|%s" % (kind, feats), what, {"stream": CUR.get("stream"), "idx": CUR.get("idx"),
                                                                "docstring": d, "parts": [header, middle, footer]})

    if not d.startswith(header):
        return dev("header-not-prefix", "header is not a prefix of the docstring") or True
    if not d.endswith(footer):
        return dev("footer-not-suffix", "footer is not a suffix of the docstring") or True
    if len(header) + len(footer) > len(d):
        return dev("header-footer-overlap", "header and footer overlap (%d + %d > %d)" % (len(header), len(footer), len(d))) or True
    rest = d[len(header): len(d) - len(footer)]
    P.monitor("split.strict.checked")
    if header + middle + footer == d:
        return True
    # indentation >= 1: undo the function's own re-indentation of the current section — it prefixes every line
    # with as many blanks as the original section has leading white-space characters
    k = len(rest) - len(rest.lstrip())
    undone = "".join(l[k:] if l.startswith(" " * k) else l for l in middle.splitlines(True))
    if CUR.get("indent", 0) == 0 or k <= 1 or undone != rest:
        dev("concatenation-differs", "header + section + footer != docstring (section %r vs %r)" % (middle[:60], rest[:60]))
    return True


def setup_shard(ctx, P):
    contracts.attach(cdd.shared.docstring_utils, "parse_docstring_into_header_args_footer", post_split)


SECTION_STARTS = {"rest": (":param", ":return", ":rtype", ":type", ":cvar", ":raises"),
                  "google": ("Args:", "Returns:", "Raises:", "Kwargs:", "Attributes:"), "numpydoc": ()}


def is_section_start(lines, i, style):
    l = lines[i]
    if style == "numpydoc":
        return i + 1 < len(lines) and bool(l) and set(lines[i + 1]) == {"-"} and len(lines[i + 1]) >= 3
    return l.startswith(SECTION_STARTS[style])


def header_lines(text):
    return [l.strip() for l in text.split("\n") if l.strip()]


def in_order(needles, haystack_lines):
    pos = 0
    for n in needles:
        try:
            pos = haystack_lines.index(n, pos) + 1
        except ValueError:
            return n
    return None


def run_file_route(ctx, P, stream, idx):
    """the same guarantee through the command that rewrites a file: a module with a documented class, a documented method and
    a documented function goes through `doctrans`; every header line of each of the three docstrings is still a whole line
    of that definition's docstring afterwards"""
    import os
    import shutil
    import tempfile

    import cdd.compound.doctrans

    r = ctx.rng(stream, idx)
    T = r.choice(STYLES)
    docs, heads = {}, {}
    for who, indent in (("cls", 1), ("method", 2), ("func", 1)):
        S = r.choice(STYLES)
        params = [("x", "int", irgen.rand_doc(r, stop=False), Ellipsis), ("y", "int", irgen.rand_doc(r, stop=False), Ellipsis)]
        if who == "cls":
            # a class docstring: header prose only, or followed by ReST :cvar entries
            h = docgen.header(r, r.randint(1, 3))
            body = h + ("\n\n:cvar factor: %s" % irgen.rand_doc(r, stop=False) if r.random() < 0.6 else "")
            text = "\n" + docgen.indent_text(body, indent) + "\n" + "    " * indent
            heads[who] = header_lines(h)
        else:
            text, parts = docgen.compose(r, S, indent=indent, params=params, paragraphs=r.randint(1, 3), with_footer=False,
                                         returns=None)
            heads[who] = header_lines(parts["header"])
        docs[who] = text
    src = ('class Scaler(object):\n    """%s"""\n    factor: int = 2\n\n    def scale(self, x, y=2):\n        """%s"""\n'
           '        return x * y\n\n\ndef top(x, y=1):\n    """%s"""\n    return x + y\n' % (docs["cls"], docs["method"], docs["func"]))
    P.case({"module": src, "T": T}, klass="file_route/%s" % T, sample={"target_style": T, "module": src[:600]})
    d = tempfile.mkdtemp(prefix="vcdd-c15-")
    try:
        path = os.path.join(d, "m.py")
        with open(path, "w") as fh:
            fh.write(src)
        ta = r.random() < 0.5
        try:
            cdd.compound.doctrans.doctrans(filename=path, docstring_format=T, type_annotations=ta, no_word_wrap=None)
        except Exception as e:
            P.count("file_route.doctrans.raised:%s" % type(e).__name__)
            return
        with open(path) as fh:
            after = fh.read()
        P.monitor("file-route.observed")
        try:
            tree = ast.parse(after)
        except SyntaxError:
            P.count("file_route.output-not-python")  # (C07's verdict)
            return
        cls = next((n for n in tree.body if isinstance(n, ast.ClassDef)), None)
        nodes = {"cls": cls, "method": next((n for n in (cls.body if cls else ()) if isinstance(n, ast.FunctionDef)), None),
                 "func": next((n for n in tree.body if isinstance(n, ast.FunctionDef)), None)}
        for who, node in nodes.items():
            got = ast.get_docstring(node, clean=False) if node is not None else None
            P.monitor("file-route.header.checked")
            missing = heads[who][0] if got is None else in_order(heads[who], [l.strip() for l in got.split("\n")])
            if missing is not None:
                P.deviation("file-route.header-line-lost|who=%s,T=%s,ta=%s" % (who, T, ta),
                            "after doctrans the docstring of the %s %s header line %r" % (
                                {"cls": "class", "method": "method", "func": "function"}[who],
                                "is gone, and with it" if got is None else "lacks", missing[:80]),
                            {"stream": stream, "idx": idx, "module": src, "after": after, "target": T})
    finally:
        shutil.rmtree(d, ignore_errors=True)


def any_section_start(lines, i):
    return any(is_section_start(lines, i, s) for s in STYLES) or lines[i].rstrip() in ("Args:", "Returns:", "Parameters", "Returns")


def run_corpus(ctx, P, stream, idx):
    """the repository's own docstrings (package, tests, the keras / torch / tensorflow style mocks): nobody generated
    them. The split identity is demanded of every text at indentation 0; the header - the lines before the first line
    that opens a section in any style - must survive conversion to each style, in order."""
    origin, text = corpus.docstrings()[idx]
    lines = text.split("\n")
    stripped = [l.strip() for l in lines]
    sec_at = next((i for i in range(len(lines)) if any_section_start(stripped, i)), None)
    rest_lines = [l for l in lines[1:] if l.strip()]
    indent0 = not lines[0][:1].isspace() and (not rest_lines or not rest_lines[0][0].isspace())
    feats = "corpus,indent0=%s,section=%s" % (indent0, sec_at is not None)
    CUR.update(P=P, stream=stream, idx=idx, feats=feats, indent=0 if indent0 else 1)
    P.case({"doc": text}, nontrivial=sec_at is not None, klass="corpus/section=%s" % (sec_at is not None),
           sample={"origin": origin, "docstring": text[:400]})
    try:
        if indent0:
            cdd.shared.docstring_utils.parse_docstring_into_header_args_footer(text, text)
    except Exception as e:
        P.deviation("split.raises.%s|%s" % (type(e).__name__, feats), "split raised %r" % (e,),
                    {"stream": stream, "idx": idx, "origin": origin, "docstring": text})
    if sec_at is None or not indent0:
        CUR.update(P=None)
        return
    hdr = [l for l in stripped[:sec_at] if l]
    for T in STYLES:
        try:
            ir = cdd.docstring.parse.docstring(text)
            out = cdd.docstring.emit.docstring(deepcopy(ir), docstring_format=T, indent_level=0)
        except Exception as e:
            P.count("corpus.raised:" + type(e).__name__)
            continue
        P.monitor("conversion.header.checked")
        P.monitor("corpus.conversion.checked")
        missing = in_order(hdr, [l.strip() for l in out.split("\n")])
        if missing is not None:
            # a prose line that *mentions* a ReST field marker (`the index of ':' in ':rtype'`) is cut at the marker
            mech = "docstring.header-line-mentioning-field-marker-cut|" if any(
                t in missing for t in (":rtype", ":return", ":param", ":type", ":cvar")) else ""
            P.deviation(mech + "conversion.header-line-lost|%s,T=%s" % (feats, T),
                        "header line %r of a repository docstring is not a whole line of the converted docstring (in order)"
                        % missing[:80], {"stream": stream, "idx": idx, "origin": origin, "docstring": text, "target": T,
                                         "converted": out})
    CUR.update(P=None)


def run_case(ctx, P, stream, idx):
    if stream == "file_route":
        return run_file_route(ctx, P, stream, idx)
    if stream == "corpus":
        return run_corpus(ctx, P, stream, idx)
    if stream == "format_prose":
        with irgen.extra_words(FORMAT_WORDS * 2):
            return _run_case(ctx, P, stream, idx)
    return _run_case(ctx, P, stream, idx)


def _run_case(ctx, P, stream, idx):
    r = ctx.rng(stream, idx)
    S = r.choice(STYLES)
    indent = r.randint(0, 2)
    with_footer = r.random() < 0.35
    n_params = r.randint(0, 5)
    params = docgen.rand_params(r, n=n_params, types=True)
    # prose whose lines open with a word that would head a section if a colon / underline followed
    lead = docgen.SECTION_WORDS if stream == "keyword_prose" else None
    text, parts = docgen.compose(r, S, indent=indent, params=params, paragraphs=r.randint(1, 3), with_footer=with_footer,
                                 lead_nl=r.random() < 0.8, header_lead=lead,
                                 # descriptions (the return's too) that run over several lines, a third of the time
                                 multi_line=__import__("random").Random(r.random()).random() < 0.33)
    feats = "S=%s,indent=%d,footer=%s,params=%s,ret=%s" % (S, indent, parts["footer"].split("\n")[0].split(":")[0][:8]
                                                          if with_footer else "none", n_params > 0,
                                                          parts["returns"] is not None)
    CUR.update(P=P, stream=stream, idx=idx, feats=feats, indent=indent)
    has_section = bool(params or parts["returns"])
    hdr = header_lines(parts["header"])
    # (1) the split, against itself
    try:
        cdd.shared.docstring_utils.parse_docstring_into_header_args_footer(text, text)
    except Exception as e:
        P.deviation("split.raises.%s|%s" % (type(e).__name__, feats), "split raised %r" % (e,),
                    {"stream": stream, "idx": idx, "docstring": text})
    # (2) conversions
    for T in STYLES:
        for route in ("docstring", "function"):
            P.case({"doc": text, "T": T, "route": route}, nontrivial=has_section, klass="%s->%s/%s" % (S, T, route),
                   sample={"source_style": S, "target_style": T, "route": route, "indent": indent, "docstring": text})
            key_feats = "%s,T=%s,route=%s" % (feats, T, route)

            def dev(kind, what, mech=None, **extra):
                P.deviation((mech + "|" if mech else "") + "conversion.%s|%s" % (kind, key_feats), what,
                            dict({"stream": stream, "idx": idx, "docstring": text, "target": T, "route": route}, **extra))

            try:
                if route == "docstring":
                    ir = cdd.docstring.parse.docstring(text)
                else:
                    names = [p[0] for p in params]
                    fsrc = "def foo(%s):\n    %s\n    return None\n" % (", ".join(names), '"""%s"""' % text.replace(
                        "\\", "\\\\").replace('"""', "'''"))
                    ir = cdd.function.parse.function(ast.parse(fsrc).body[0])
            except Exception as e:
                P.count("parse.raised:" + type(e).__name__)
                continue
            # absorption: the parsed types/defaults are the generated ones, and carry no prose
            P.monitor("conversion.absorption.checked")
            # sentence-like prose lines only: a doctest output line such as `2` is a substring of any type/default
            # that contains that digit (Literal member 'v2_beta') and would make the absorption test a coincidence
            prose = [l for l in hdr + header_lines(parts["footer"]) if len(l) >= 10 and " " in l]
            # (a header line whose text also occurs in an entry's *own* description proves nothing when it shows up in
            # that entry - small vocabularies repeat, and a description in braces is a documented source of Literal types)
            own = "\n".join(str(p[2]) for p in params) + "\n" + str((parts["returns"] or ("", ""))[1])
            prose = [l for l in prose if l not in own]
            gen = {p[0]: p for p in params}
            entries = list((ir.get("params") or {}).items())
            if ir.get("returns"):
                entries.append(("return_type", ir["returns"]["return_type"]))
            for name, e in entries:
                for fld in ("typ", "default"):
                    v = e.get(fld)
                    if isinstance(v, str) and any(pl and pl in v for pl in prose):
                        mech = None
                        if fld == "typ" and S == "rest" and with_footer and ":raises" not in v:
                            mech = "docstring.rest.footer-absorbed-into-last-type"
                        dev("prose-absorbed-into-%s" % fld, "%s of %s contains prose: %r" % (fld, name, v[:120]), mech=mech)
            try:
                if route == "docstring":
                    out = cdd.docstring.emit.docstring(deepcopy(ir), docstring_format=T, indent_level=indent)
                else:
                    node = cdd.function.emit.function(deepcopy(ir), function_name="foo", function_type="static",
                                                      docstring_format=T, type_annotations=False)
                    out = ast.get_docstring(ast.parse(to_code(node)).body[0], clean=False) or ""
            except Exception as e:
                P.count("emit.raised:" + type(e).__name__)
                continue
            # nothing absorbed on the way back either: re-parse the converted docstring
            try:
                back = cdd.docstring.parse.docstring(out)
                names_in = [k.lstrip("*") for k in (ir.get("params") or {})]
                names_back = [k.lstrip("*") for k in (back.get("params") or {})]
                if indent == 0 and not with_footer and route == "docstring" and names_in == [p[0].lstrip("*") for p in params] \
                        and names_back != names_in:
                    dev("names-changed-by-conversion", "parameter names %r became %r" % (names_in[:4], names_back[:4]),
                        mech="docstring.numpydoc.no-types.names-dropped" if T == "numpydoc" and route == "function" and False
                        else None, converted=out)
                b_entries = list((back.get("params") or {}).items())
                if back.get("returns"):
                    b_entries.append(("return_type", back["returns"]["return_type"]))
                for name, e in b_entries:
                    for fld in ("typ", "default"):
                        v = e.get(fld)
                        if isinstance(v, str) and any(pl and pl in v for pl in prose):
                            dev("converted.prose-absorbed-into-%s" % fld, "after conversion %s of %s contains prose: %r" % (
                                fld, name, v[:120]),
                                mech="docstring.rest.footer-absorbed-into-last-type" if fld == "typ" and with_footer and (
                                    T == "rest" or S == "rest") and ":raises" not in v else None, converted=out)
            except Exception as e:
                P.count("reparse.raised:" + type(e).__name__)
            # the region before the converted section holds the header prose and nothing else
            out_lines = [l.strip() for l in out.split("\n")]
            sec_at = next((i for i, l in enumerate(out_lines) if is_section_start(out_lines, i, T)), None)
            if sec_at is not None and has_section:
                region = [l for l in out_lines[:sec_at] if l]
                allowed = set(hdr) | set(header_lines(parts["footer"]))  # a footer may be folded up into the prose
                extra_l = [l for l in region if l not in allowed]
                if extra_l:
                    dev("header-region-differs", "lines before the converted section are not exactly the header prose: "
                        "unexpected %r" % (extra_l[:2],), converted=out)
            # parameter names survive the conversion unchanged (a slipped index garbles the first/last entry)
            gen_names = [p[0].lstrip("*") for p in params]
            if [k.lstrip("*") for k in (ir.get("params") or {})] == gen_names and "back" in dir():
                pass
            P.monitor("conversion.header.checked")
            missing = in_order(hdr, [l.strip() for l in out.split("\n")])
            if missing is not None:
                dev("header-line-lost", "header line %r is not a whole line of the converted docstring (in order)" % missing[:80],
                    converted=out)
    CUR.update(P=None)


if __name__ == "__main__":
    sys.exit(core.main(sys.modules[__name__]))
