"""C04 — emitted code runs and exposes exactly the described interface.

Monitor M7: CPython itself is the oracle. The source emitted by the real class / pydantic /
function / argparse emitters is compiled and exec'd in an isolated namespace (inside the shard
subprocess); class attributes and __annotations__, inspect.signature, and a really populated
argparse.ArgumentParser (its _actions and parse_args) are compared with the description.
Also: unparse(emitted AST) re-parsed equals the emitted AST (cdd's own cmp_ast + ast.dump).
"""

import argparse
import ast
import inspect
import re
import sys
import typing
from copy import deepcopy
from itertools import product

from cdd.shared.source_transformer import to_code

from vcdd import core
from vcdd.gen import irgen
from vcdd.oracle import hops
from vcdd.oracle.ircmp import norm_doc

PID = "C04"
RULE = ("interfaces over int/float/str/bool, Optional[scalar], Literal[str..], List[scalar], Union[scalars] with "
        "literal defaults (class matrix + seeded random); each emitted as class, pydantic-shaped class, function "
        "(type_annotations x kw-only) and argparse function in 3 docstring styles, then compiled and executed; a case "
        "= (interface, emitter, options); distinct by content digest; non-trivial = at least one parameter")
REQUIRED_MONITORS = ("exec.class", "exec.pydantic", "exec.function", "exec.argparse", "argparse.parse_args", "function.receiver.checked",
                     "unparse.reparse")
ASSUMPTIONS = [
    "emitting required=True together with a default is what the README documents; not treated as a deviation",
    "a function parameter without default is shown as =None (documented normalisation)",
    "pydantic-shaped classes are executed against a stub BaseModel (pydantic itself is not installed offline)",
]
STYLES = ("rest", "google", "numpydoc")
CORE_T = ("int", "float", "str", "bool", "optional", "literal", "list", "union")
CORE_D = ("absent", "int", "negint", "zero", "float", "negfloat", "smallfloat", "bool", "str", "strspace", "strtilde")
BUILTIN = {"int": int, "float": float, "bool": bool, "str": str}


def _matrix():
    import random

    out, r = [], random.Random(0)
    for tk in CORE_T:
        adm = set()
        for _ in range(8):
            adm.update(irgen.admissible_default_kinds(irgen.make_type(r, tk)))
        for dk in CORE_D:
            if dk in adm:
                for n, pos in ((1, 0), (2, 0), (2, 1), (3, 1), (3, 2)):
                    out.append((tk, dk, n, pos))
    return out


MATRIX = _matrix()


def streams(ctx):
    return [("matrix", len(MATRIX)), ("random", ctx.scale(1800, 10000)), ("shapes", ctx.scale(900, 6000)), ("big", ctx.scale(60, 800)), ("similar", ctx.scale(200, 2500)),
            ("shared_ir", ctx.scale(300, 4000)), ("announced", ctx.scale(300, 3000)), ("none_defaults", ctx.scale(300, 3000))]


def gen_case(ctx, stream, idx):
    r = ctx.rng(stream, idx)
    if stream == "matrix":
        tk, dk, n, pos = MATRIX[idx]
        return irgen.matrix_ir(r, tk, dk, n, pos, with_return=idx % 2 == 1)
    if stream == "announced":
        # descriptions that announce their default in prose (as every docstring written by cdd with emit_default_doc
        # does): whether the help text repeats the announcement is what emit_default_doc decides
        ir = irgen.rand_ir(r, nparams=r.randint(1, 4), type_kinds=("int", "float", "str", "bool"),
                           default_kinds=("int", "float", "str", "bool", "strspace"), all_defaults=True, with_return=False)
        for p in ir["params"].values():
            if r.random() < 0.8:
                d = p["default"]
                p["doc"] = p["doc"].rstrip(".") + r.choice((". Defaults to %s", ", defaults to %s", ". Defaults to %s")) % (
                    '"%s"' % d if isinstance(d, str) else d)
        return ir
    if stream == "none_defaults":
        # an explicit None default under every Optional shape (scalar, str, Literal, List, Union with None): the description
        # distinguishes "no default" from "default None", and so must the emitted attribute / parameter / option
        ir = irgen.rand_ir(r, nparams=r.randint(1, 4), type_kinds=("int", "str", "bool", "float"),
                           default_kinds=("int", "str", "bool", "float", "absent"), suffix_defaults=True, with_return=False)
        for nm in r.sample(("suffix", "mode", "tags", "level", "limit", "rate", "flag"), r.randint(1, 3)):
            ir["params"][nm] = {"doc": irgen.rand_doc(r, stop=False), "default": irgen.NONE_STR, "typ": r.choice((
                "Optional[str]", "Optional[int]", "Optional[float]", "Optional[bool]", "Optional[Literal['slow', 'fast']]",
                "Optional[List[str]]", "Optional[List[int]]", "Union[str, int, None]", "Optional[Dict[str, int]]"))}
        return ir
    if stream == "similar":
        return irgen.similar_ir(r, type_kinds=CORE_T, default_kinds=CORE_D)
    if stream == "shared_ir":
        # several targets emitted one after the other from the SAME description object (what `sync` and any caller that
        # generates class + function + CLI from one interface does): every one of them must expose the description
        return irgen.rand_ir(r, type_kinds=CORE_T + ("list", "union", "optional"), default_kinds=CORE_D + ("absent",),
                             nparams=r.randint(1, 6), suffix_defaults=False)
    if stream == "big":
        return irgen.rand_ir(r, type_kinds=CORE_T, default_kinds=CORE_D, nparams=r.randint(10, 24), max_params=24)
    if stream == "shapes":
        # nested / single-member / spaced-member / double-quoted Literal types, delimiter characters in str defaults,
        # punctuation in descriptions (help texts, docstrings)
        return irgen.rand_ir(r, type_kinds=CORE_T + ("nested", "nested", "str", "literaldq", "literaldq"),
                             default_kinds=CORE_D + ("strodd", "strodd", "strbad"), nparams=r.randint(1, 6),
                             doc_kinds=("plain", "punct", "punct", "quoted"))
    return irgen.rand_ir(r, type_kinds=CORE_T + ("complex",), default_kinds=CORE_D + ("imag",), nparams=0 if idx % 16 == 3 else r.randint(1, 6))


def namespace():
    ns = {"__name__": "emitted", "__builtins__": __builtins__}
    for k in ("Optional", "Literal", "List", "Union", "Any", "Dict", "Tuple"):
        ns[k] = getattr(typing, k)
    from json import loads

    ns["loads"] = loads
    ns["BaseModel"] = type("BaseModel", (object,), {})
    return ns


class _FoldNeg(ast.NodeTransformer):
    """`-3` is Constant(-3) in an emitted AST and UnaryOp(USub, Constant(3)) once re-read: same program"""

    def visit_UnaryOp(self, node):
        self.generic_visit(node)
        if isinstance(node.op, ast.USub) and isinstance(node.operand, ast.Constant) and isinstance(
                node.operand.value, (int, float)) and not isinstance(node.operand.value, bool):
            return ast.Constant(value=-node.operand.value, kind=None)
        return node

    def visit_Constant(self, node):
        return ast.Constant(value=node.value, kind=None)


def fold_neg(node):
    return _FoldNeg().visit(node)


def same(a, b):
    return type(a) is type(b) and a == b


class Dev(Exception):
    pass


def dev(P, ctxd, fmt, cfg, field, how, tk, dk, what, src, mech=None):
    generic = (mech + "|" if mech else "") + "exec.%s.%s.%s" % (fmt, field, how)
    detail = "style=%s,ta=%s,kw=%s,t=%s,d=%s" % (cfg.get("docstring_format"), cfg.get("type_annotations"),
                                                  cfg.get("emit_as_kwonlyargs"), tk, dk)
    P.deviation(generic + "|" + detail, "%s: %s" % (fmt, what),
                dict(ctxd, format=fmt, options=cfg, emitted=src, field=field, how=how))


def described(p):
    """the described default as a Python value (the interface description spells a None default as a marker string)"""
    return None if p["default"] == irgen.NONE_STR else p["default"]


def check_class(P, ctxd, fmt, cfg, ir, ns, src):
    K = ns.get(ir["name"])
    if not inspect.isclass(K):
        return dev(P, ctxd, fmt, cfg, "symbol", "missing", "-", "-", "class %s not defined" % ir["name"], src)
    ann = K.__dict__.get("__annotations__", {})
    entries = list(ir["params"].items())
    if ir.get("returns"):
        entries.append(("return_type", ir["returns"]["return_type"]))
    names = [n for n, _ in entries]
    if [k for k in ann if k in names or not k.startswith("_")] != names:
        dev(P, ctxd, fmt, cfg, "names", "differ", "-", "-", "annotations %r != %r" % (list(ann), names), src)
        return
    for name, p in entries:
        tk, dk = irgen.type_kind_of(p.get("typ")), irgen.default_kind_of(p)
        P.monitor("class.attr.checked")
        want_t = eval(p["typ"], ns)
        if ann.get(name) != want_t:
            dev(P, ctxd, fmt, cfg, "annotation", "differs", tk, dk, "%s: %r != %r" % (name, ann.get(name), want_t), src)
        if "default" in p:
            if name not in K.__dict__:
                dev(P, ctxd, fmt, cfg, "default", "lost", tk, dk, "%s has no class attribute" % name, src)
            elif not same(K.__dict__[name], described(p)):
                dev(P, ctxd, fmt, cfg, "default", "differs", tk, dk, "%s = %r, described %r" % (
                    name, K.__dict__[name], described(p)), src)
        elif name in K.__dict__:
            dev(P, ctxd, fmt, cfg, "default", "gained", tk, dk, "%s = %r, none described" % (name, K.__dict__[name]),
                src)


def check_function(P, ctxd, fmt, cfg, ir, ns, src):
    f = ns.get(ir["name"])
    if not inspect.isfunction(f):
        return dev(P, ctxd, fmt, cfg, "symbol", "missing", "-", "-", "function %s not defined" % ir["name"], src)
    sig = inspect.signature(f)
    names = list(ir["params"])
    # a method / classmethod-shaped function leads with its receiver (function_type, else the description's "type")
    ftype = cfg.get("function_type") or cfg.get("ir_type") or "static"
    receiver = [] if ftype == "static" else [ftype]
    if list(sig.parameters) != receiver + names:
        return dev(P, ctxd, fmt, cfg, "names", "differ", "-", "-", "signature %r != %r" % (
            list(sig.parameters), receiver + names), src)
    for rn in receiver:
        P.monitor("function.receiver.checked")
        sp = sig.parameters[rn]
        if sp.kind != inspect.Parameter.POSITIONAL_OR_KEYWORD or sp.default is not inspect.Parameter.empty:
            dev(P, ctxd, fmt, cfg, "receiver", "differs", "-", "-", "%s kind %s default %r" % (rn, sp.kind, sp.default),
                src)
    want_kind = inspect.Parameter.KEYWORD_ONLY if cfg["emit_as_kwonlyargs"] else inspect.Parameter.POSITIONAL_OR_KEYWORD
    for name, p in ir["params"].items():
        tk, dk = irgen.type_kind_of(p.get("typ")), irgen.default_kind_of(p)
        sp = sig.parameters[name]
        P.monitor("function.param.checked")
        if sp.kind != want_kind:
            dev(P, ctxd, fmt, cfg, "kind", "differs", tk, dk, "%s kind %s" % (name, sp.kind), src)
        want_d = described(p) if "default" in p else None  # absent == None (documented)
        if sp.default is inspect.Parameter.empty:
            dev(P, ctxd, fmt, cfg, "default", "lost", tk, dk, "%s has no default, described %r" % (name, want_d), src)
        elif not same(sp.default, want_d):
            dev(P, ctxd, fmt, cfg, "default", "differs", tk, dk, "%s=%r, described %r" % (name, sp.default, want_d), src)
        if cfg["type_annotations"]:
            want_t = eval(p["typ"], ns)
            if sp.annotation != want_t:
                dev(P, ctxd, fmt, cfg, "annotation", "differs", tk, dk, "%s: %r != %r" % (name, sp.annotation, want_t),
                    src)
        elif sp.annotation is not inspect.Parameter.empty:
            dev(P, ctxd, fmt, cfg, "annotation", "unexpected", tk, dk, "%s annotated %r with type_annotations=False" % (
                name, sp.annotation), src)
    if ir.get("returns") and cfg["type_annotations"]:
        rp = ir["returns"]["return_type"]
        if sig.return_annotation != eval(rp["typ"], ns):
            dev(P, ctxd, fmt, cfg, "return-annotation", "differs", irgen.type_kind_of(rp["typ"]), "absent",
                "-> %r != %r" % (sig.return_annotation, rp["typ"]), src)
    # the docstring is the function's __doc__ and mentions every parameter name
    doc = f.__doc__ or ""
    for name in names:
        if cfg["docstring_format"] == "numpydoc" and cfg["type_annotations"]:
            continue  # known finding: NumPy docstring without types drops the names
        if name not in doc:
            dev(P, ctxd, fmt, cfg, "docstring", "name-missing", "-", "-", "%s not mentioned in __doc__" % name, src)


def arg_value(a):
    if a.choices:
        return str(list(a.choices)[0])
    if a.type is int:
        return "3"
    if a.type is float:
        return "2.5"
    if a.type is bool:
        return "True"
    if a.type is complex:
        return "1j"
    return "text"


def norm_help(d):
    """norm_doc, with the lower-case spelling of the announcement (`..., defaults to 5`) removed as well"""
    return norm_doc(re.sub(r"[.,]?\s*[Dd]efaults to .*$", "", d or "", flags=re.S)).rstrip(",")  # (`x, defaults to 5` -> `x,`)


def check_argparse(P, ctxd, fmt, cfg, ir, ns, src):
    f = ns.get("set_cli_args")
    if not inspect.isfunction(f):
        return dev(P, ctxd, fmt, cfg, "symbol", "missing", "-", "-", "set_cli_args not defined", src)
    ap = argparse.ArgumentParser(prog="emitted")
    f(ap)
    acts = [a for a in ap._actions if not isinstance(a, argparse._HelpAction)]
    names = list(ir["params"])
    if [a.dest for a in acts] != names:
        return dev(P, ctxd, fmt, cfg, "names", "differ", "-", "-", "actions %r != %r" % ([a.dest for a in acts], names),
                   src)
    if norm_doc(ap.description) != norm_doc(ir["doc"]):
        dev(P, ctxd, fmt, cfg, "description", "differs", "-", "-", "%r != %r" % (ap.description, ir["doc"]), src)
    for a, (name, p) in zip(acts, ir["params"].items()):
        typ = p["typ"]
        tk, dk = irgen.type_kind_of(typ), irgen.default_kind_of(p)
        base = irgen.base_of(typ)
        P.monitor("argparse.action.checked")
        if a.option_strings != ["--" + name]:
            dev(P, ctxd, fmt, cfg, "option", "differs", tk, dk, "%r" % a.option_strings, src)
        # type conversion
        if base in BUILTIN:
            want = (None, str) if base == "str" else (BUILTIN[base],)
            if a.type not in want:
                dev(P, ctxd, fmt, cfg, "type", "differs", tk, dk, "%s: type=%r for %s" % (name, a.type, typ), src)
        elif base.startswith("List["):
            inner = base[5:-1]
            want = (None, str) if inner == "str" else (BUILTIN[inner],)
            if a.type not in want or not isinstance(a, argparse._AppendAction):
                dev(P, ctxd, fmt, cfg, "type", "differs", tk, dk, "%s: type=%r action=%s for %s" % (
                    name, a.type, type(a).__name__, typ), src)
        # choices
        if base.startswith("Literal["):
            members = tuple(ast.literal_eval(base[len("Literal"):]))
            if a.choices is None or tuple(a.choices) != members:
                dev(P, ctxd, fmt, cfg, "choices", "differ", tk, dk, "%s: choices=%r for %s" % (name, a.choices, typ), src)
        elif a.choices is not None:
            dev(P, ctxd, fmt, cfg, "choices", "unexpected", tk, dk, "%s: choices=%r for %s" % (name, a.choices, typ), src)
        # default
        want_d = described(p) if "default" in p else None
        if not same(a.default, want_d):
            dev(P, ctxd, fmt, cfg, "default", "differs", tk, dk, "%s: default=%r described %r" % (name, a.default, want_d),
                src)
        # a plain scalar without default has to be given on the command line
        if typ in ("int", "float", "str", "complex") and "default" not in p and not a.required:
            dev(P, ctxd, fmt, cfg, "required", "scalar-without-default-not-required", tk, dk,
                "%s: %s without default yet not required" % (name, typ), src)
        # Optional[...] is never required
        if typ.startswith("Optional[") and a.required:
            dev(P, ctxd, fmt, cfg, "required", "optional-required", tk, dk, "%s: Optional yet required" % name, src)
        # help text
        if norm_help(a.help) != norm_help(p.get("doc")):
            dev(P, ctxd, fmt, cfg, "help", "differs", tk, dk, "%s: help=%r described %r" % (name, a.help, p.get("doc")),
                src)
        if "emit_default_doc" in cfg:
            # the option carries its default itself; the help text repeats the description's announcement of it exactly
            # when emit_default_doc asks for that
            P.monitor("argparse.help.announcement.checked")
            announced = "efaults to" in (p.get("doc") or "")
            if ("efaults to" in (a.help or "")) != (announced and bool(cfg["emit_default_doc"])):
                dev(P, ctxd, fmt, cfg, "help", "announces-default" if not cfg["emit_default_doc"] else "drops-announcement",
                    tk, dk, "%s: emit_default_doc=%r help=%r described %r" % (name, cfg["emit_default_doc"], a.help,
                                                                             p.get("doc")), src)
    # parse with only the required options given: every other option yields its described default
    argv = []
    for a in acts:
        if a.required:
            argv += [a.option_strings[0], arg_value(a)]
    try:
        got = ap.parse_args(argv)
        P.monitor("argparse.parse_args")
    except SystemExit as e:
        return dev(P, ctxd, fmt, cfg, "parse_args", "exits", "-", "-", "parse_args(%r) exited %r" % (argv, e.code), src)
    for a, (name, p) in zip(acts, ir["params"].items()):
        if not a.required:
            want_d = described(p) if "default" in p else None
            if not same(getattr(got, name), want_d):
                dev(P, ctxd, fmt, cfg, "parse_args", "default-differs", irgen.type_kind_of(p["typ"]),
                    irgen.default_kind_of(p), "%s: parsed %r described %r" % (name, getattr(got, name), want_d), src)


CHECKERS = {"class": check_class, "pydantic": check_class, "function": check_function, "argparse": check_argparse}


def configs():
    for style in STYLES:
        yield "class", {"docstring_format": style}
        yield "pydantic", {"docstring_format": style}
        yield "argparse", {"docstring_format": style}
        for ta, kw in product((True, False), (True, False)):
            yield "function", {"docstring_format": style, "type_annotations": ta, "emit_as_kwonlyargs": kw}


# (function_type argument, "type" of the description used when the argument is None)
FUNCTION_TYPES = (("static", None), ("self", None), ("cls", None), (None, "static"), (None, "self"), (None, "cls"))


def run_case(ctx, P, stream, idx):
    ir0 = gen_case(ctx, stream, idx)
    sh = irgen.shape(ir0)
    compound = [p["typ"] for p in ir0["params"].values() if p["typ"] in irgen.NESTED_TYPES and "Literal[" not in p["typ"]]
    confs = list(configs())
    shared = None
    if stream == "shared_ir":
        shared = deepcopy(ir0)
        r_ = ctx.rng(stream, idx, "order")
        style = r_.choice(STYLES)
        confs = [(f, c) for f, c in confs if c["docstring_format"] == style and (f != "function" or (
            c["type_annotations"] and c["emit_as_kwonlyargs"]))]
        r_.shuffle(confs)
    if stream == "announced":
        confs = [("argparse", {"docstring_format": st, "emit_default_doc": edd}) for st in STYLES for edd in (False, True)]
    for n, (fmt, cfg) in enumerate(confs):
        if fmt == "argparse" and compound:
            continue  # argparse has no notation for compound types (narrowed: C02's documented findings)
        ir = ir0
        if fmt == "function" and shared is not None:
            cfg = dict(cfg, function_type="static")
        elif fmt == "function":
            ft, ir_type = FUNCTION_TYPES[(idx + n) % len(FUNCTION_TYPES)]
            cfg = dict(cfg, function_type=ft)
            if ir_type is not None:
                ir = dict(deepcopy(ir0), type=ir_type)
                cfg["ir_type"] = ir_type
        if shared is not None:
            cfg = dict(cfg, emitted_as_number=n + 1)
        ctxd = {"stream": stream, "idx": idx, "ir": ir}
        P.case({"ir": ir, "fmt": fmt, "cfg": cfg}, nontrivial=bool(ir["params"]), klass="%s/%s" % (stream, fmt),
               sample={"format": fmt, "options": cfg, "shape": sh, "ir": ir})
        try:
            if shared is not None:
                P.monitor("shared-description.emitted")
                node, src = hops.emit(shared, fmt, _share=True, **{k: v for k, v in cfg.items() if k not in (
                    "ir_type", "emitted_as_number")})
            else:
                node, src = hops.emit(ir, fmt, **{k: v for k, v in cfg.items() if k != "ir_type"})
        except Exception as e:
            dev(P, ctxd, fmt, cfg, "emit", "raises:" + type(e).__name__, "-", "-", repr(e)[:200], None)
            continue
        # unparse . parse round trip of the emitted AST
        try:
            tree = ast.parse(src)
            P.monitor("unparse.reparse")
            if ast.dump(tree.body[0]) != ast.dump(ast.parse(to_code(tree)).body[0]):
                dev(P, ctxd, fmt, cfg, "unparse", "unstable", "-", "-", "text->AST->text->AST differs", src)
            if ast.dump(fold_neg(deepcopy(node))) != ast.dump(fold_neg(tree.body[0])):
                dev(P, ctxd, fmt, cfg, "unparse", "ast-differs", "-", "-", "re-parsed AST != emitted AST", src)
            code = compile(src, "<emitted>", "exec")
        except SyntaxError as e:
            dev(P, ctxd, fmt, cfg, "compile", "SyntaxError", "-", "-", repr(e)[:200], src)
            continue
        ns = namespace()
        try:
            exec(code, ns)
            P.monitor("exec." + fmt)
        except Exception as e:
            dev(P, ctxd, fmt, cfg, "exec", "raises:" + type(e).__name__, "-", "-", repr(e)[:200], src)
            continue
        try:
            CHECKERS[fmt](P, ctxd, fmt, cfg, ir, ns, src)
        except Exception as e:
            dev(P, ctxd, fmt, cfg, "inspect", "raises:" + type(e).__name__, "-", "-", repr(e)[:300], src)


if __name__ == "__main__":
    sys.exit(core.main(sys.modules[__name__]))
