"""C09 — the concrete syntax tree is lossless for every input string.

Monitor: M1 postconditions on the real `cdd.shared.cst.cst_parse` and
`cdd.shared.cst_utils.cst_scanner` (so they also fire when `doctrans` calls them):
concatenation identity and line tiling. Workload: exhaustive enumeration of all token sequences
up to length N over a 22-token lexical alphabet, every .py file of the repository, and seeded
token-level mutations of those files.
"""

import os
import sys
import tokenize
import traceback
import io

import cdd.shared.cst
import cdd.shared.cst_utils

from vcdd import REPO, core
from vcdd.monitors import contracts

PID = "C09"
ALPHABET = ("\n", "    ", " ", '"', "'", '"""', "'''", "#", "\\", "(", ")", "[", "]", "{", "}", ":", "=", "@", ";",
            "def", "class", "x")
RULE_TPL = ("(1) every sequence of length <= N over the 22-token alphabet %r (N=4 quick, N=5 thorough; distinct by "
        "construction, non-trivial = non-empty); (2) every .py file under the repository (quick: <= 8 KB; thorough: all; "
        "the scanner is quadratic); (3) seeded mutations of those files (delete/duplicate/swap a token, unbalance "
        "a quote or bracket, splice lines); (4) the exhaustive product of statement templates header x gap x body x tail "
        "(%d strings: same-line bodies, odd spacing, mixed quote styles, decorators, continuations); (5) every sequence "
        "of length 5..6 (thorough: ..7) over the 8 tokens that open, close and join string literals; (6) seeded expression "
        "statements built from string literals and operators (concatenation, %%-formatting, conditional expressions, implicit "
        "concatenation, calls) at module level, in a def, in a class, after a docstring; (7) every sequence of length <= 3 "
        "(thorough: <= 4) doubled and tripled, every header x body template repeated")
REQUIRED_MONITORS = ("cst_parse.post", "cst_scanner.post")
ASSUMPTIONS = ["line numbers are 1-based and a node's line_no_end is the line on which the next node starts"]
CUR = {}
BLOCK = 2000


def n_max(ctx):
    return ctx.scale(4, 5)


def EXHAUSTIVE(ctx):
    n = n_max(ctx)
    return {"what": "all token sequences of length <= %d over the 22-token alphabet" % n,
            "strings": sum(len(ALPHABET) ** k for k in range(0, n + 1))}


def repo_files(ctx):
    out = []
    limit = ctx.scale(8000, 200000)
    for d, _, fs in os.walk(os.path.join(REPO, "cdd")):
        for f in sorted(fs):
            if f.endswith(".py"):
                p = os.path.join(d, f)
                if os.path.getsize(p) <= limit:
                    out.append(p)
    return sorted(out)


def streams(ctx):
    total = sum(len(ALPHABET) ** k for k in range(0, n_max(ctx) + 1))
    return [("alphabet", (total + BLOCK - 1) // BLOCK), ("files", len(repo_files(ctx))),
            ("mutants", ctx.scale(300, 6000)), ("hand", len(HAND)), ("templates", (N_TEMPLATES + BLOCK - 1) // BLOCK),
            ("exotic", ctx.scale(30, 400)), ("quotes", (quotes_total(ctx) + BLOCK - 1) // BLOCK),
            ("strexpr", ctx.scale(20, 300)), ("repeats", (repeats_total(ctx) + BLOCK - 1) // BLOCK)]


# (7) repetition: every sequence of length <= 3 (thorough: <= 4) over the wide alphabet, doubled and tripled, and every
# header / body template doubled - two byte-identical neighbours are what a scanner that remembers its previous chunk confuses
def repeats_n(ctx):
    return ctx.scale(3, 4)


def repeats_total(ctx):
    return sum(len(ALPHABET) ** k for k in range(1, repeats_n(ctx) + 1)) + len(T_HEADERS) * len(T_BODIES)


# (5) a second, deeper exhaustive sweep over the few tokens that open and close string literals: what the scanner decides
# about a chunk that starts and ends with quotes needs longer sequences than the wide alphabet affords
QUOTES = ('"""', "'''", "@", "\n", "x", " ", "\\", '"')


def quotes_n(ctx):
    return ctx.scale(6, 7)


def quotes_total(ctx):
    return sum(len(QUOTES) ** k for k in range(5, quotes_n(ctx) + 1))  # lengths below 5 are inside the wide alphabet's sweep


def decode_quotes(i):
    n, k = len(QUOTES), 5
    while i >= n ** k:
        i -= n ** k
        k += 1
    seq = []
    for _ in range(k):
        seq.append(QUOTES[i % n])
        i //= n
    return "".join(reversed(seq))


# (6) seeded expression statements built from string literals: what sits where a docstring would, but is not one
STR_ATOMS = ('"""a"""', "'''b'''", '"""\nUsage of foo\n"""', "'''%s'''", '"c"', "'d'", 'r"""e\\"""', 'b"""f"""', 'f"""{x}"""',
             '""""""', "''''''", '"""it\'s"""', "'''say \"hi\"'''", '"""a\\\\"""', "x", "1", "(1, 2)")
STR_OPS = (" + ", " % ", " * ", " if verbose else ", " or ", " and ", " == ", " in ", ", ", " ", "@", " \\\n    + ", ".join(", "[0] + ",
           " if x else ''' ''' if y else ", " is not ")


def strexpr(r):
    n = r.randint(2, 4)
    parts = [r.choice(STR_ATOMS[:14])]
    for _ in range(n - 1):
        op = r.choice(STR_OPS)
        parts += [op, r.choice(STR_ATOMS)]
        if op == ".join(":
            parts.append(")")
    expr = "".join(parts)
    if r.random() < 0.15:
        expr = "(" + expr + ")"
    where = r.choice(("top", "top", "def", "class", "after-doc", "nested"))
    tail = r.choice(("\n", "", "\nx = 1\n", "  # c\n", "\n\n"))
    if where == "top":
        return expr + tail
    if where == "def":
        return "def f(x, verbose=False):\n    " + expr + tail
    if where == "class":
        return "class C(object):\n    " + expr + tail
    if where == "after-doc":
        return 'def f(x):\n    """doc"""\n    ' + expr + tail
    return "class C:\n    def m(self):\n        " + expr + tail


# seeded strings over characters that end or continue lines in unusual ways (CR, CRLF, form feed, vertical tab, NUL,
# backslash-CRLF), tabs and non-ASCII letters, mixed with the keywords and quotes that steer the scanner
EXOTIC = ("\r\n", "\r", "\t", "\f", "\v", "\x00", "\u00e9", "\u03bb", " ", "\\\r\n", "'''", '"""', "#", "def ", "class ", "x",
          "\n", ":", "(", ")", "=", "'", '"', "\\", "0", "async ", "@", "lambda", "return ", "\ufeff", "\u2028")


HAND = [
    'def f(q):\n    """Doc\n\n    :param q: the quote mark, one of ", \' or \'\'\'\n    """\n    return q\n\n\ndef g():\n    return 1\n',
    "def f(q):\n    \'\'\'Doc\n\n    :param q: wrapped in \"\"\"\n    \'\'\'\n    return q\n",
    "async def f(s):\n    async with s.get() as r:\n        return await r.text()\n", "async for c in s: print(c)", "async\n",
    "", "\n", "\n\n", "x", "x\n", "def f(a,\n      b):\n    '''doc'''\n    return a\n", "@dec(\n  1)\ndef f(): pass\n",
    "class A(\n    B):\n    x = 1 # c\n", "a = '''\nmulti\n'''\n", "x = 1;y = 2\n", "if x:\\\n  pass\n", "'''", '"""\n', "(", ")\n",
    "# only comment", "\t\tx\n", "\r\n", "x = [\n 1,\n 2]\n\n\n", "def f():\n    \"\"\"d\"\"\"\n", "async def f(): pass\n",
    "lambda: (yield)\n", "x = \"a # not comment\"\n", "@a\n@b\nclass C: pass", " \n \n", "\\", "\\\n", "def", "class", "def x", "class x:",
]


# statement templates: header x gap x body x tail (exhaustive product). Same-line bodies, odd spacing and
# mixed quote styles are where statement-boundary detection is decided; token sequences long enough to
# express them (>= 6 tokens) are beyond the exhaustive alphabet bound.
T_HEADERS = ("def f():", "def f(a, b=(1, 2)):", "async def f():", "class A:", "class A(B, metaclass=M):", "if x:", "for i in y:",
             "with open(p) as f:", "@dec\ndef f():", "@dec(\n    1,\n)\nclass A:", "def f(\n    a,\n):", "    def m(self):",
             "try:", "else:", "lambda:", "x = [", "def    :")
T_GAPS = ("", " ", "    ", "\t", "\n    ", "\n\n    ", "\n        ", " \\\n    ", "  # c\n    ")
T_BODIES = ('"""doc"""', "'''doc'''", '""""""', '"""a\nb"""', "'''x \"\"\" y'''", "pass", "return 1", "# only comment",
            "x = '#not'", "y = (1,\n     2)", "z = \"\"\"s\"\"\"", "r'''raw'''", "...", "1]", "print('''t''')")
T_TAILS = ("", "\n", "\n\n", "; return 2\n", "  # trailing\n", "\n    x = 1\n", "\nclass Z: pass")


def template(i):
    n = (len(T_HEADERS), len(T_GAPS), len(T_BODIES), len(T_TAILS))
    a, i = i % n[0], i // n[0]
    b, i = i % n[1], i // n[1]
    c, i = i % n[2], i // n[2]
    return T_HEADERS[a] + T_GAPS[b] + T_BODIES[c] + T_TAILS[i % n[3]]


N_TEMPLATES = len(T_HEADERS) * len(T_GAPS) * len(T_BODIES) * len(T_TAILS)
RULE = RULE_TPL % (ALPHABET, N_TEMPLATES)


def decode(i):
    """index -> token sequence (shortlex order)"""
    n = len(ALPHABET)
    k = 0
    while i >= n ** k:
        i -= n ** k
        k += 1
    seq = []
    for _ in range(k):
        seq.append(ALPHABET[i % n])
        i //= n
    return "".join(reversed(seq))


def violation(P, which, how, source, extra):
    klass = CUR.get("klass", "?")
    P.deviation("cst.%s.%s|class=%s" % (which, how, klass), "%s: %s %s" % (which, how, extra),
                {"stream": CUR.get("stream"), "idx": CUR.get("idx"), "source": source if len(source) < 4000 else
                 source[:4000] + "...", "detail": extra})


def post_cst_parse(source, result):
    P = CUR.get("P")
    if P is None:
        return True
    P.monitor("cst_parse.post")
    joined = "".join(n.value for n in result)
    if joined != source:
        k = next((i for i, (a, b) in enumerate(zip(joined, source)) if a != b), min(len(joined), len(source)))
        violation(P, "cst_parse", "concat-differs", source, "first difference at offset %d: %r vs %r (lengths %d/%d)" % (
            k, joined[k:k + 20], source[k:k + 20], len(joined), len(source)))
    if result:
        if result[0].line_no_start != 1:
            violation(P, "cst_parse", "first-line", source, "first node starts at %r" % (result[0].line_no_start,))
        for i, n in enumerate(result):
            if n.line_no_end - n.line_no_start != n.value.count("\n"):
                violation(P, "cst_parse", "span", source, "node %d spans %r..%r but has %d line breaks" % (
                    i, n.line_no_start, n.line_no_end, n.value.count("\n")))
                break
            if i and n.line_no_start != result[i - 1].line_no_end:
                violation(P, "cst_parse", "tiling", source, "node %d starts at %r, previous ended at %r" % (
                    i, n.line_no_start, result[i - 1].line_no_end))
                break
    elif source:
        violation(P, "cst_parse", "empty-result", source, "no nodes for a non-empty source")
    return True


def post_cst_scanner(source, result):
    P = CUR.get("P")
    if P is None:
        return True
    P.monitor("cst_scanner.post")
    if "".join(result) != source:
        violation(P, "cst_scanner", "concat-differs", source, "scanner chunks do not concatenate to the input")
    if any(not isinstance(c, str) or c == "" for c in result):
        violation(P, "cst_scanner", "empty-chunk", source, "scanner produced an empty / non-str chunk")
    return True


def setup_shard(ctx, P):
    contracts.attach(cdd.shared.cst_utils, "cst_scanner", post_cst_scanner)
    contracts.attach(cdd.shared.cst, "cst_parse", post_cst_parse)


def mutate(r, src):
    """token-level mutation of a source text"""
    try:
        toks = [t.string for t in tokenize.generate_tokens(io.StringIO(src).readline)]
    except Exception:
        toks = src.split(" ")
    lines = src.splitlines(True)
    op = r.choice(("del", "dup", "swap", "quote", "bracket", "splice", "cut", "insert"))
    if op in ("del", "dup", "swap") and len(lines) > 2:
        i = r.randrange(len(lines))
        if op == "del":
            del lines[i]
        elif op == "dup":
            lines.insert(i, lines[i])
        else:
            j = r.randrange(len(lines))
            lines[i], lines[j] = lines[j], lines[i]
        return "".join(lines)
    if op == "quote":
        i = r.randrange(len(src) + 1)
        return src[:i] + r.choice(('"', "'", '"""', "'''")) + src[i:]
    if op == "bracket":
        i = r.randrange(len(src) + 1)
        return src[:i] + r.choice("()[]{}") + src[i:]
    if op == "splice" and len(lines) > 3:
        i, j = sorted(r.sample(range(len(lines)), 2))
        return "".join(lines[:i]) + lines[i].rstrip("\n") + "".join(lines[j:])
    if op == "cut":
        i = r.randrange(len(src) + 1)
        return src[:i]
    i = r.randrange(len(src) + 1)
    return src[:i] + r.choice(ALPHABET) + r.choice(ALPHABET) + src[i:]


def run_one(P, src):
    try:
        cdd.shared.cst.cst_parse(src)  # contracts on cst_parse and on the nested cst_scanner fire
    except Exception as e:
        # "for every string whatsoever": a string for which no node list comes back is not reproduced
        tb = traceback.extract_tb(e.__traceback__)
        inside = [f for f in tb if os.path.join("cdd", "shared") in f.filename]
        violation(P, "cst_parse", "raises-" + type(e).__name__, src, "%r at %s" % (
            e, "%s:%s" % (os.path.basename(inside[-1].filename), inside[-1].name) if inside else "?"))


def run_case(ctx, P, stream, idx):
    CUR.update(P=P, stream=stream, idx=idx, klass=stream)
    if stream == "alphabet":
        total = sum(len(ALPHABET) ** k for k in range(0, n_max(ctx) + 1))
        lo, hi = idx * BLOCK, min(total, (idx + 1) * BLOCK)
        for i in range(lo, hi):
            run_one(P, decode(i))
        P.bulk(hi - lo, hi - lo - (1 if lo == 0 else 0), klass="alphabet", sample={"alphabet_string": decode(hi - 1)})
    elif stream == "files":
        path = repo_files(ctx)[idx]
        with open(path) as f:
            src = f.read()
        P.case({"file": os.path.relpath(path, REPO), "bytes": len(src)}, klass="files")
        run_one(P, src)
    elif stream == "mutants":
        r = ctx.rng(stream, idx)
        files = [p for p in repo_files(ctx) if os.path.getsize(p) <= 3000]
        path = r.choice(files)
        with open(path) as f:
            src = f.read()
        for _ in range(r.randint(1, 3)):
            src = mutate(r, src)
        P.case({"mutant_of": os.path.relpath(path, REPO), "text": src}, klass="mutants",
               sample={"mutant_of": os.path.relpath(path, REPO), "bytes": len(src), "head": src[:200]})
        run_one(P, src)
    elif stream == "exotic":
        r = ctx.rng(stream, idx)
        last, seen = "", set()
        for _ in range(BLOCK):
            last = "".join(r.choice(EXOTIC) for _ in range(r.randint(2, 9)))
            if last not in seen:
                seen.add(last)
                run_one(P, last)
        P.bulk(len(seen), len(seen), klass="exotic", sample={"exotic_string": last})  # distinct within the block
    elif stream == "quotes":
        total = quotes_total(ctx)
        lo, hi = idx * BLOCK, min(total, (idx + 1) * BLOCK)
        for i in range(lo, hi):
            run_one(P, decode_quotes(i))
        P.bulk(hi - lo, hi - lo, klass="quotes", sample={"quotes_string": decode_quotes(hi - 1)})
    elif stream == "repeats":
        n_seq = sum(len(ALPHABET) ** k for k in range(1, repeats_n(ctx) + 1))
        total = repeats_total(ctx)
        lo, hi = idx * BLOCK, min(total, (idx + 1) * BLOCK)
        last, n = "", 0
        for i in range(lo, hi):
            if i < n_seq:
                x = decode(i + 1)  # (index 0 is the empty string)
                forms = (x * 2, x * 3)
            else:
                j = i - n_seq
                h, b = T_HEADERS[j % len(T_HEADERS)], T_BODIES[j // len(T_HEADERS)]
                forms = (h + h, h + b + h + b, h + " " + b + "\n" + h + " " + b + "\n", h + b * 3, (h + "\n    " + b + "\n") * 2)
            for last in forms:
                run_one(P, last)
                n += 1
        P.bulk(n, n, klass="repeats", sample={"repeated_string": last})
    elif stream == "strexpr":
        r = ctx.rng(stream, idx)
        last, seen = "", set()
        for _ in range(400):
            last = strexpr(r)
            if last not in seen:
                seen.add(last)
                run_one(P, last)
        P.bulk(len(seen), len(seen), klass="strexpr", sample={"string_expression_statement": last})
    elif stream == "templates":
        lo, hi = idx * BLOCK, min(N_TEMPLATES, (idx + 1) * BLOCK)
        for i in range(lo, hi):
            run_one(P, template(i))
        P.bulk(hi - lo, hi - lo, klass="templates", sample={"template_string": template(lo)})
    else:
        src = HAND[idx]
        P.case({"hand": src}, nontrivial=bool(src), klass="hand")
        run_one(P, src)
    CUR.update(P=None)


if __name__ == "__main__":
    sys.exit(core.main(sys.modules[__name__]))
