"""C01 — docstring <-> interface round trip in ReST, Google and NumPy styles.

Monitor: M1 postcondition on the real `cdd.docstring.emit.docstring`: the emitted text, fed to the
real `cdd.docstring.parse.docstring` (with prose defaults kept and stripped), must give back the
snapshotted interface under `ircmp` (names/order, type strings, defaults by value *and* Python
type, descriptions modulo whitespace / terminal full stop / 'Defaults to' clause, return entry).
"""

import inspect
import sys
from collections import OrderedDict
from copy import deepcopy
from itertools import product

import cdd.docstring.emit
import cdd.docstring.parse

from vcdd import core
from vcdd.gen import irgen
from vcdd.monitors import contracts
from vcdd.oracle.ircmp import cmp_ir

PID = "C01"
RULE = ("interfaces from the class matrix (type kind x admissible default kind x position in 1..3 parameters, "
        "with and without return) and seeded random interfaces (0..6 parameters), each emitted in 3 styles x "
        "emit_default_doc x emit_types x word_wrap and re-parsed with prose defaults kept and stripped; a case = "
        "(interface, style, flags); distinct by content digest; non-trivial = at least one parameter or a return")
REQUIRED_MONITORS = ("docstring.emit.post",)
ASSUMPTIONS = [
    "ircmp applies only the normalisations the property grants (whitespace, terminal full stop, 'Defaults to' clause)",
    "descriptions are generated from a vocabulary free of cdd's documented type-hint trigger words",
    "with emit_default_doc=False on the emit side the docstring carries no default, so none is expected back",
    "complex-typed parameters with an imaginary default (random stream) probe the type-directed reading of defaults; "
    "they are compared only with emit_types=True and prose defaults kept, the configuration in which the type is known",
]
STYLES = ("rest", "google", "numpydoc")
CUR = {}

CORE_TKINDS = ("int", "float", "str", "bool", "optional", "literal", "list", "union", "dotted")
CORE_DKINDS = ("absent", "int", "negint", "zero", "float", "negfloat", "smallfloat", "bool", "str", "strspace",
               "strtilde", "strdot", "imag")
RANDOM_TKINDS = CORE_TKINDS + ("complex",)  # scalar whose default text ('1j') reads correctly only once the type is known
PROBE_DKINDS = ("none", "code", "emptystr", "strbad")


def _matrix():
    import random

    out = []
    r = random.Random(0)
    for tk in irgen.TYPE_KINDS:
        adm = set()
        for _ in range(8):
            adm.update(irgen.admissible_default_kinds(irgen.make_type(r, tk)))
        for dk in irgen.DEFAULT_KINDS:
            if dk in adm:
                for n, pos in ((1, 0), (2, 0), (2, 1), (3, 1), (3, 2)):
                    for wr in (False, True):
                        out.append((tk, dk, n, pos, wr))
    return out


MATRIX = _matrix()


def streams(ctx):
    return [("matrix", len(MATRIX)), ("random", ctx.scale(250, 6000)), ("zero_params", ctx.scale(12, 100)),
            ("probe", ctx.scale(60, 600)), ("longdoc", ctx.scale(120, 2500)), ("indented", ctx.scale(120, 2500)),
            ("shapes", ctx.scale(200, 4000)), ("nodoc", ctx.scale(100, 2000)),
            ("big", ctx.scale(40, 600)), ("similar", ctx.scale(120, 2000))]


def _strip_for_config(ir, et, edd_emit):
    exp = deepcopy(ir)
    entries = list(exp["params"].values()) + ([exp["returns"]["return_type"]] if exp.get("returns") else [])
    if not edd_emit:
        for p in entries:
            p.pop("default", None)
    return exp


def post_docstring(intermediate_repr, docstring_format, emit_types, emit_default_doc, word_wrap, indent_level, result,
                   OLD):
    """postcondition of cdd.docstring.emit.docstring (observe mode: records, returns True)"""
    P = CUR.get("P")
    if P is None or CUR.get("busy"):
        return True
    CUR["busy"] = True
    try:
        P.monitor("docstring.emit.post")
        ir = OLD.ir
        if not ir.get("params") and not ir.get("returns"):
            return True
        exp = _strip_for_config(ir, emit_types, emit_default_doc)
        # a docstring rendered for a nested position (indent_level > 0) is read back the way every cdd parser reads
        # one: through `ast.get_docstring(clean=True)`, i.e. inspect.cleandoc
        text = inspect.cleandoc(result) if indent_level else result
        if indent_level:
            P.monitor("docstring.emit.post.indented")
        for edd_parse in (True, False):
            cfg = {"style": docstring_format, "et": emit_types, "edd": emit_default_doc, "ww": word_wrap,
                   "edd_parse": edd_parse, "indent": indent_level}
            try:
                back = cdd.docstring.parse.docstring(text, emit_default_doc=edd_parse)
                P.monitor("docstring.parse.called")
            except Exception as e:
                _dev(P, ir, cfg, {"where": "parse", "field": "raises", "how": type(e).__name__, "exp": None,
                                  "got": repr(e)[:200], "index": -1, "n": len(ir["params"]), "tkind": "-",
                                  "dkind": "-"}, result)
                continue
            exp_c = exp
            if not (emit_types and edd_parse):
                # a complex default ('1j') is outside the property's default domain: its text is only readable with
                # the type at hand, so it is compared where the type is in the text and the prose is kept, and
                # left out of the comparison elsewhere
                cplx = [k for k, p in ir["params"].items() if p.get("typ") == "complex"]
                if cplx:
                    exp_c, back = deepcopy(exp), deepcopy(back)
                    for k in cplx:
                        exp_c["params"][k].pop("default", None)
                        (back.get("params") or {}).get(k, {}).pop("default", None)
            for d in cmp_ir(exp_c, back, typ=emit_types):
                _dev(P, ir, cfg, d, result)
            if not emit_types:
                # types omitted from the text: nothing must be *invented* for a typed slot
                pass
        return True
    finally:
        CUR["busy"] = False


def classify(ir, cfg, d):
    """mechanism key of a deviation: computed from the *shape* of the case and of the deviation
    (style, flags, type kind, default kind, which field differs and how) — never from random values"""
    sh = irgen.shape(ir)
    style, et, edd = cfg["style"], cfg["et"], cfg["edd"]
    dkinds = [dk for _, dk in sh["params"]]
    any_default = any(k != "absent" for k in dkinds)
    where, field, how, tk, dk = d["where"], d["field"], d["how"], d["tkind"], d["dkind"]
    got = d.get("got")
    generic = "docstring.%s.%s.%s.%s" % (style, where, field, how)
    detail = "et=%s,edd=%s,t=%s,d=%s" % (et, edd, tk, dk)
    mech = None
    entries = list(ir["params"].values()) + ([ir["returns"]["return_type"]] if ir.get("returns") else [])
    long_doc = any(len(p.get("doc") or "") > 70 for p in entries)
    if style == "numpydoc" and et and cfg.get("ww") and long_doc and (
            (where == "names" and how == "extra") or (where in ("param", "return") and field == "doc")):
        mech = "docstring.numpydoc.wrapped-description-misparsed"
    elif style == "rest" and cfg.get("edd_parse") is False and cfg.get("ww") and long_doc and where in (
            "param", "return") and dk == "strspace" and field == "default" and how == "value" and "\\n" in (got or ""):
        # (only when the parser is asked to strip the prose default: the default is then taken from the still
        # wrapped line; with the prose kept the joined text is re-read and the value is right)
        mech = "docstring.wrap-breaks-inside-string-default"
    elif style == "numpydoc" and not et and (where == "names" or (where == "parse" and how in ("KeyError", "IndexError"))
                                           or (where == "returns" and how == "lost")):
        mech = "docstring.numpydoc.no-types.names-dropped"
    elif (style in ("google", "numpydoc") and where == "return" and field == "default" and how.startswith("gained")
          and edd and any_default):
        mech = "docstring.google-numpydoc.return-gets-default"
    elif style == "google" and sh["n"] == 0 and where == "return" and (
            (field == "doc" and how == "changed") or (field == "typ" and (how == "lost" or how.startswith("union->")))):
        mech = "docstring.google.returns-without-args"
    elif edd and where in ("param", "return") and dk == "none" and field == "default" and how == "value" and got in (
            repr("(None)"), repr("None")):
        mech = "docstring.none-default-becomes-text"
    elif edd and where == "parse" and how == "TypeError" and "none" in dkinds:
        mech = "docstring.none-default-becomes-text"
    elif edd and where in ("param", "return") and dk == "emptystr" and (
            (field == "default" and how in ("lost", "value")) or field == "doc"):
        mech = "docstring.empty-str-default-lost"
    elif edd and where in ("param", "return") and dk in ("code", "strdot") and (
            (field == "default" and how == "value") or field == "doc"):
        mech = "docstring.default-cut-at-dot-or-unquoted"
    elif edd and where == "parse" and how in ("SyntaxError", "ValueError") and (
            "code" in dkinds or "strdot" in dkinds):
        mech = "docstring.default-cut-at-dot-or-unquoted"
    if mech is None and style == "rest" and not et and where == "names" and how == "missing" and any(
            not p.get("doc") for p in ir["params"].values()):
        mech = "docstring.rest.no-types.description-less-name-dropped"
    if mech is None and edd and "strbad" in dkinds and (
            (where in ("param", "return") and dk == "strbad" and field in ("default", "doc"))
            or (where == "parse" and how in ("SyntaxError", "ValueError"))):
        mech = "docstring.str-default-with-quote-backslash-backtick"
    if mech is not None:
        return mech + "|" + generic + "," + detail
    return generic + "|" + detail


def _dev(P, ir, cfg, d, text):
    key = classify(ir, cfg, d)
    P.deviation(key, "%s %s %s: expected %r got %r" % (d["where"], d["field"], d["how"], d.get("exp"), d.get("got")),
                {"stream": CUR.get("stream"), "idx": CUR.get("idx"), "config": cfg, "ir": ir, "emitted": text,
                 "diff": d})


def setup_shard(ctx, P):
    contracts.attach(cdd.docstring.emit, "docstring", post_docstring,
                     snapshots=[("ir", _snap_ir)])


def _snap_ir(intermediate_repr):
    return deepcopy(intermediate_repr)


def gen_case(ctx, stream, idx):
    r = ctx.rng(stream, idx)
    if stream == "matrix":
        tk, dk, n, pos, wr = MATRIX[idx]
        return irgen.matrix_ir(r, tk, dk, n, pos, with_return=wr)
    if stream == "random":
        return irgen.rand_ir(r, type_kinds=RANDOM_TKINDS, default_kinds=CORE_DKINDS, nparams=r.randint(1, 6))
    if stream == "zero_params":
        return irgen.rand_ir(r, nparams=0, with_return=True, type_kinds=CORE_TKINDS)
    if stream == "longdoc":
        # descriptions long enough to be wrapped (word_wrap) - and long Literal types
        ir = irgen.rand_ir(r, type_kinds=CORE_TKINDS, default_kinds=CORE_DKINDS, nparams=r.randint(1, 4),
                           doc_kinds=("long", "long", "plain"))
        return ir
    if stream == "indented":
        return irgen.rand_ir(r, type_kinds=CORE_TKINDS, default_kinds=CORE_DKINDS, nparams=r.randint(1, 5),
                             doc_kinds=("plain", "plain", "long"))
    if stream == "shapes":
        # data shapes: nested / single-member / spaced-member types, str defaults made of delimiter characters,
        # descriptions with colons, brackets, quotes, '#', '%', braces
        return irgen.rand_ir(r, type_kinds=CORE_TKINDS + ("nested", "nested", "str", "literaldq"), nparams=r.randint(1, 6),
                             default_kinds=CORE_DKINDS + ("strodd", "strodd"), doc_kinds=("plain", "punct", "punct"))
    if stream == "similar":
        return irgen.similar_ir(r, type_kinds=CORE_TKINDS, default_kinds=CORE_DKINDS)
    if stream == "big":
        # interfaces much larger than the usual handful of parameters
        return irgen.rand_ir(r, type_kinds=CORE_TKINDS, default_kinds=CORE_DKINDS, nparams=r.randint(10, 24), max_params=24,
                             doc_kinds=("plain", "plain", "punct", "long"))
    if stream == "nodoc":
        # parameters without description (no default either: a default is carried by the description's prose)
        ir = irgen.rand_ir(r, type_kinds=CORE_TKINDS, nparams=r.randint(1, 5), default_kinds=CORE_DKINDS,
                           with_return=r.random() < 0.3)
        for p in ir["params"].values():
            if "default" not in p and r.random() < 0.6:
                if r.random() < 0.5:
                    del p["doc"]
                else:
                    p["doc"] = ""
        return ir
    if stream == "probe":
        return irgen.rand_ir(r, nparams=r.randint(1, 4), default_kinds=PROBE_DKINDS + ("absent", "int", "str"))
    raise ValueError(stream)


def run_case(ctx, P, stream, idx):
    ir = gen_case(ctx, stream, idx)
    if stream != "matrix" and ctx.rng(stream + ".hdr", idx).random() < 0.2:
        ir["doc"] = ""  # no description of the interface itself: the text begins with the parameter section
    CUR.update(P=P, stream=stream, idx=idx)
    sh = irgen.shape(ir)
    r = ctx.rng(stream + ".opts", idx)
    for style, edd, et, ww in product(STYLES, (True, False), (True, False), (True, False)):
        # nested position: the text is indented (and optionally ends in a separating tab) as inside a def/class
        indent, sep_tab = (r.choice((1, 2, 3)), r.random() < 0.5) if stream == "indented" else (0, True)
        P.case({"ir": ir, "style": style, "edd": edd, "et": et, "ww": ww, "indent": indent, "sep": sep_tab},
               nontrivial=bool(ir["params"] or ir.get("returns")),
               klass="%s/%s" % (stream, style),
               sample={"style": style, "edd": edd, "et": et, "ww": ww, "indent": indent, "shape": sh, "ir": ir})
        try:
            cdd.docstring.emit.docstring(deepcopy(ir), docstring_format=style, emit_default_doc=edd, emit_types=et,
                                         word_wrap=ww, indent_level=indent, emit_separating_tab=sep_tab)
        except Exception as e:
            cfg = {"style": style, "et": et, "edd": edd, "ww": ww, "indent": indent}
            _dev(P, ir, cfg, {"where": "emit", "field": "raises", "how": type(e).__name__, "exp": None,
                              "got": repr(e)[:200], "index": -1, "n": sh["n"], "tkind": "-", "dkind": "-"}, None)
    CUR.update(P=None)


if __name__ == "__main__":
    sys.exit(core.main(sys.modules[__name__]))
