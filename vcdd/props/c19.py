"""C19 — gen writes a valid module that exports exactly what it generated; never overwrites.

Observed at the real CLI (`python -m cdd gen ...`) in a subprocess under the file-system
snapshot monitor (M3). Oracle: the output compiles; its top-level symbols are the templated names
of the input mapping and `__all__` lists exactly those; each generated symbol parsed back with
the matching real parser has the interface of its source entry; with import inference every
typing / SQLAlchemy name used free is imported; on a pre-existing output the command refuses and
the file is byte-identical.
"""

import ast
import builtins
import json
import os
import shutil
import subprocess
import sys
import tempfile
from copy import deepcopy

from vcdd import REPO, core
from vcdd.gen import irgen
from vcdd.monitors import fsnap
from vcdd.oracle import hops
from vcdd.oracle.ircmp import cmp_ir

PID = "C19"
PARSE_KINDS = ("class", "function", "sqlalchemy", "pydantic", "json_schema")
EMIT_KINDS = ("argparse", "class", "function", "json_schema", "pydantic", "sqlalchemy", "sqlalchemy_hybrid",
              "sqlalchemy_table")
TEMPLATES = ("{name}", "{name}Config", "Gen{name}")
RULE = ("input modules with 1..5 generated classes / functions / SQLAlchemy classes / pydantic classes, and JSON-schema "
        "files x parse kind (explicit, infer) x 8 emit kinds x name templates x --emit-and-infer-imports x "
        "--prepend/--imports-from-file x output absent/present; a case = one invocation; distinct by content digest; "
        "non-trivial = the command wrote a module (or refused an existing one)")
REQUIRED_MONITORS = ("gen.run", "output.compiled", "symbols.checked", "symbol.reparsed", "existing-output.refused",
                     "imports.resolved", "directory-input.run")
ASSUMPTIONS = ["configurations that raise before writing anything (e.g. --emit function, --emit pydantic, --parse "
               "argparse on this tree) are listed in evidence as rejected; the non-clobbering and confinement clauses "
               "are still checked for them",
               "interfaces are in the common domain (scalar / Optional / Literal types)"]
T = ("int", "float", "str", "bool", "optional", "literal")
D = ("absent", "int", "negint", "float", "bool", "str")
BUDGET_S = {"quick": 500, "thorough": 3000}
SA_NAMES = frozenset(("Column", "Integer", "String", "Float", "Boolean", "Enum", "JSON", "Identity", "Table", "ForeignKey",
                      "LargeBinary", "Text", "DateTime"))
TYPING_NAMES = frozenset(("Optional", "Literal", "List", "Union", "Any", "Dict", "Tuple"))


def streams(ctx):
    return [("invocations", ctx.scale(400, 5000))]


# how the input entries are written: half of the cases announce defaults in the docstrings as well ("Defaults to 5"), as
# hand-written code and every docstring produced with emit_default_doc does
IN_KW = {}


def gen_inputs(r, pk):
    IN_KW.clear()
    if r.random() < 0.5:
        IN_KW.update({k: {"emit_default_doc": True} for k in ("class", "function", "pydantic")})
    n = r.randint(1, 5)
    names = r.sample(["Alpha", "Beta", "Gamma", "Delta", "Conf", "Model", "Node", "Warning", "filter", "input", "ConnectionError", "format", "X", "a1"], n)  # (entries named like builtins, one-letter names)
    irs = [irgen.rand_ir(r, nparams=r.randint(1, 4), type_kinds=T, default_kinds=D, with_return=False, name=nm,
                         doc_kinds=("plain", "plain", "punct", "long"))
           for nm in names]
    for ir in irs:
        for p in ir["params"].values():
            if len(p.get("doc") or "") > 100 and r.random() < 0.5:
                # a description past the wrap width that contains a token no wrapper can break without changing it
                w_ = p["doc"].split()
                w_.insert(len(w_) // 2, "/usr/local/share/" + "/".join(r.choice(irgen.WORDS) for _ in range(14)))
                p["doc"] = " ".join(w_)
    if IN_KW:
        # an announced default is text first: the small ones (a single digit, a sign, a bare 0) are where a reader of that
        # text decides between int, float and bool
        for ir in irs:
            if r.random() < 0.6:
                ir["params"][r.choice(("epochs", "workers", "retries", "verbosity"))] = {
                    "typ": r.choice(("int", "int", "Optional[int]", "float")), "doc": irgen.rand_doc(r, stop=False),
                    "default": r.choice((0, 1, 2, 3, 5, 7, 9, -1, 10))}
    if pk == "json_schema":
        irs = irs[:1]
        return json.dumps(hops.emit(irs[0], "json_schema")[0], indent=1), irs, "in.json"
    body = "\n\n\n".join(hops.emit(ir, pk, **IN_KW.get(pk, {}))[1] for ir in irs)
    return HEADS[pk] + "\n\n" + body + "\n", irs, "in.py"


HEADS = {"class": "from typing import Optional, Literal\n", "function": "from typing import Optional, Literal\n",
         "sqlalchemy": "from sqlalchemy import Column, Integer, String, Float, Boolean, Enum, Identity\n",
         "pydantic": "from typing import Optional, Literal\nfrom pydantic import BaseModel\n"}


def split_into_directory(r, irs, pk, mixed):
    """the same entries as a directory of modules (1..3 files); with `mixed` (only under --parse infer) every file
    holds classes or functions of its own choosing -> ({file name: text}, [kind of each entry])"""
    n_files = r.randint(1, min(3, len(irs)))
    buckets = [[] for _ in range(n_files)]
    for i, ir in enumerate(irs):
        buckets[i % n_files if i < n_files else r.randrange(n_files)].append(i)
    kinds, files = [pk] * len(irs), {}
    for k, idxs in enumerate(buckets):
        fk = r.choice(("class", "function")) if mixed else pk
        for i in idxs:
            kinds[i] = fk
        files["m%d_%s.py" % (k, r.choice(("models", "funcs", "conf")))] = HEADS[fk] + "\n\n" + "\n\n\n".join(
            hops.emit(irs[i], fk, **IN_KW.get(fk, {}))[1] for i in idxs) + "\n"
    return files, kinds


def free_names(tree):
    """names loaded at module / class / function level that are neither bound in the module nor builtins"""
    bound = set(dir(builtins))
    for n in ast.walk(tree):
        if isinstance(n, (ast.Import, ast.ImportFrom)):
            for a in n.names:
                if a.name == "*":
                    return set()
                bound.add((a.asname or a.name).split(".")[0])
        elif isinstance(n, (ast.FunctionDef, ast.AsyncFunctionDef, ast.ClassDef)):
            bound.add(n.name)
            if not isinstance(n, ast.ClassDef):
                a = n.args
                for x in a.posonlyargs + a.args + a.kwonlyargs + [y for y in (a.vararg, a.kwarg) if y]:
                    bound.add(x.arg)
        elif isinstance(n, ast.Name) and isinstance(n.ctx, ast.Store):
            bound.add(n.id)
        elif isinstance(n, ast.comprehension):
            for t in ast.walk(n.target):
                if isinstance(t, ast.Name):
                    bound.add(t.id)
    used = set(n.id for n in ast.walk(tree) if isinstance(n, ast.Name) and isinstance(n.ctx, ast.Load))
    return used - bound


def top_symbols(tree):
    out = []
    for n in tree.body:
        if isinstance(n, (ast.ClassDef, ast.FunctionDef, ast.AsyncFunctionDef)):
            out.append(n.name)
        elif isinstance(n, ast.Assign) and len(n.targets) == 1 and isinstance(n.targets[0], ast.Name) and \
                n.targets[0].id != "__all__":
            out.append(n.targets[0].id)
    return out


def get_all(tree):
    for n in tree.body:
        if isinstance(n, (ast.Assign, ast.AnnAssign)):
            tgt = n.targets[0] if isinstance(n, ast.Assign) else n.target
            if isinstance(tgt, ast.Name) and tgt.id == "__all__":
                try:
                    return list(ast.literal_eval(n.value))
                except Exception:
                    return None
    return None


def run_case(ctx, P, stream, idx):
    r = ctx.rng(stream, idx)
    pk = r.choice(PARSE_KINDS)
    ek = r.choice(EMIT_KINDS)
    parse_arg = r.choice((pk, "infer"))
    tpl = r.choice(TEMPLATES)
    infer_imports = r.random() < 0.5
    with_prepend = r.random() < 0.3
    existing = r.random() < 0.2
    src, irs, in_name = gen_inputs(r, pk)
    out_name = "out.json" if ek == "json_schema" else "out.py"
    # the input mapping may also be a directory of modules
    as_dir = pk != "json_schema" and r.random() < 0.25
    kinds = [pk] * len(irs)
    dir_files = None
    if as_dir:
        dir_files, kinds = split_into_directory(r, irs, pk, mixed=parse_arg == "infer" and pk in ("class", "function")
                                                and r.random() < 0.6)
        in_name, src = "indir", "\n".join("# ---- %s\n%s" % kv for kv in sorted(dir_files.items()))
    d = tempfile.mkdtemp(prefix="vcdd-c19-")
    try:
        if as_dir:
            os.mkdir(os.path.join(d, in_name))
            for fn, text in dir_files.items():
                with open(os.path.join(d, in_name, fn), "w") as f:
                    f.write(text)
        else:
            with open(os.path.join(d, in_name), "w") as f:
                f.write(src)
        argv = [sys.executable, "-m", "cdd", "gen", "--name-tpl", tpl, "--input-mapping", in_name, "--parse", parse_arg,
                "--emit", ek, "-o", out_name]
        if infer_imports:
            argv.append("--emit-and-infer-imports")
        # rarely varied flags
        no_ww = r.random() < 0.3
        emit_call = r.random() < 0.2
        decorator = r.choice((None, None, None, None, "dataclass", "functools.lru_cache"))
        if no_ww:
            argv.append("--no-word-wrap")
        if emit_call:
            argv.append("--emit-call")
        if decorator:
            argv += ["--decorator", decorator]
        if with_prepend:
            future = "from __future__ import annotations\n" if r.random() < 0.5 else ""
            with open(os.path.join(d, "imports_src.py"), "w") as f:
                f.write(future + "import os\nfrom typing import Optional, Literal\n\nX = 1\n")
            argv += ["--prepend", r.choice(("PREPENDED = True\n", "import sys\n", "from __future__ import division\nimport sys\n")),
                     "--imports-from-file", "imports_src.py"]
        sentinel = "# pre-existing content, must survive\nKEEP = %d\n" % r.randint(0, 999)
        if existing:
            with open(os.path.join(d, out_name), "w") as f:
                f.write(sentinel)
        snap0 = fsnap.snapshot(d)
        # (the command runs under its own string-hash seed, as a user's invocation does; the harness under 0)
        env = dict(os.environ, PYTHONPATH=REPO, PYTHONDONTWRITEBYTECODE="1", PYTHONHASHSEED=str(1 + (idx * 31) % 9973))
        pr = subprocess.run(argv, cwd=d, env=env, stdout=subprocess.PIPE, stderr=subprocess.PIPE, timeout=300)
        P.monitor("gen.run")
        diff = fsnap.diff(snap0, fsnap.snapshot(d))
        outp = os.path.join(d, out_name)
        out_src = open(outp).read() if os.path.exists(outp) else None
    finally:
        shutil.rmtree(d, ignore_errors=True)
    cfg = {"parse": parse_arg, "input_kind": pk, "emit": ek, "name_tpl": tpl, "infer_imports": infer_imports,
           "prepend": with_prepend, "existing_output": existing, "n": len(irs), "no_word_wrap": no_ww,
           "emit_call": emit_call, "decorator": decorator,
           "input_mapping": "directory(%d files%s)" % (len(dir_files), ", mixed kinds" if len(set(kinds)) > 1 else "")
           if as_dir else "file"}
    feats = "parse=%s,emit=%s,tpl=%s,imports=%s,prepend=%s%s" % (pk if parse_arg != "infer" else pk + "/infer", ek,
                                                                  TEMPLATES.index(tpl), infer_imports, with_prepend,
                                                                  (",dir" if as_dir else "") + (",call" if emit_call else "")
                                                                  + (",deco" if decorator else ""))
    w = {"stream": stream, "idx": idx, "config": cfg, "input": src, "output": out_src, "stderr": pr.stderr.decode()[-500:]}
    err_last = (pr.stderr.decode().strip().splitlines() or [""])[-1]

    def dev(kind, what, mech=None, **extra):
        P.deviation((mech + "|" if mech else "") + "gen.%s|%s" % (kind, feats), what, dict(w, **extra))

    wrote = pr.returncode == 0 and out_src is not None
    if as_dir:
        P.monitor("directory-input.run")
    P.case({"src": src, "cfg": cfg}, nontrivial=wrote or existing, klass="%s->%s" % (pk, ek),
           sample={"config": cfg, "input_head": src[:300]})
    touched = [p for p in fsnap.changed_paths(diff) if p not in (out_name, "./")]
    if touched:
        dev("other-file-touched", "paths other than the output changed: %r" % touched)
    if existing:
        P.monitor("existing-output.refused")
        if out_src != sentinel:
            dev("existing-output-overwritten", "gen changed an existing output file (exit %d)" % pr.returncode)
        if pr.returncode == 0:
            dev("existing-output-not-refused", "gen exited 0 on an existing output file")
        elif "IOError" not in pr.stderr.decode() and "OSError" not in pr.stderr.decode() and "exist" not in err_last:
            dev("existing-output-wrong-error", "gen failed on an existing output with %r" % err_last[:120])
        return
    if pr.returncode != 0:
        errtype = err_last.split(":")[0].strip()
        P.count("rejected.%s->%s:%s" % (pk if parse_arg != "infer" else "infer(%s)" % pk, ek, errtype[:30]))
        # configurations this tree rejects before emitting anything (documented in DESIGN.md); any other
        # failing configuration is a deviation, so that a break which makes gen *fail* is not silently 'rejected'
        expected = ((ek == "function" and errtype == "TypeError") or (ek == "pydantic" and errtype == "KeyError")
                    or (pk == "json_schema" and parse_arg == "infer" and errtype == "NotImplementedError")
                    or (pk == "sqlalchemy" and ek == "json_schema" and errtype == "TypeError"))
        if not expected:
            dev("command-fails." + errtype[:30], "gen failed in a configuration that is expected to work: %s" % err_last[:200],
                mech="gen.json-schema-input-symbol-named-by-filename" if pk == "json_schema" and ek in (
                    "sqlalchemy", "sqlalchemy_hybrid") and errtype == "SyntaxError" else None)
        if out_src is not None:
            # the command failed *after* creating the output: what it left behind must still be a valid module
            P.count("rejected-after-writing")
            try:
                json.loads(out_src) if ek == "json_schema" else compile(out_src, out_name, "exec")
            except Exception as e:
                dev("failed-leaving-invalid-output", "gen failed (%s) and left an invalid %s behind: %r" % (
                    err_last[:80], out_name, e),
                    mech="gen.sqlalchemy-to-json-schema-leaves-partial-file" if pk == "sqlalchemy" and ek == "json_schema"
                    and "JSON serializable" in err_last else None)
        return
    if out_src is None:
        return dev("no-output", "gen exited 0 without writing the output file")
    want_names = [tpl.format(name=ir["name"]) for ir in irs]
    if ek == "json_schema":
        try:
            doc = json.loads(out_src)
            P.monitor("output.compiled")
        except Exception as e:
            return dev("output-not-json", "output is not JSON: %r" % (e,))
        # one schema per entry of the input mapping, identified by the templated name, with the entry's properties
        schemas = doc["schemas"] if isinstance(doc, dict) and "schemas" in doc and len(irs) > 1 else [doc]
        P.monitor("symbols.checked")
        ids = [sc.get("$id") if isinstance(sc, dict) else None for sc in schemas]
        js_mech = "gen.json-schema-input-symbol-named-by-filename" if pk == "json_schema" else None
        if sorted(map(str, ids)) != sorted(want_names):
            dev("schemas-differ", "schemas %r != templated names %r" % (ids, want_names), mech=js_mech)
        for sc in schemas:
            cand = [ir for ir in irs if tpl.format(name=ir["name"]) == (sc.get("$id") if isinstance(sc, dict) else None)]
            if cand:
                P.monitor("symbol.reparsed")
                if list(sc.get("properties", {})) != list(cand[0]["params"]):
                    dev("schema-properties-differ", "schema %s has properties %r, its source entry %r" % (
                        sc.get("$id"), list(sc.get("properties", {})), list(cand[0]["params"])))
        return
    try:
        tree = ast.parse(out_src)
        compile(out_src, out_name, "exec")
        P.monitor("output.compiled")
    except SyntaxError as e:
        return dev("output-not-python", "generated module does not compile: %r" % (e,))
    syms = [s for s in top_symbols(tree) if s not in ("PREPENDED",)]
    allv = get_all(tree)
    P.monitor("symbols.checked")
    is_sa = ek.startswith("sqlalchemy")
    sa_mech = "gen.sqlalchemy.name-template-only-on-table" if is_sa and tpl != "{name}" else None
    js_mech = "gen.json-schema-input-symbol-named-by-filename" if pk == "json_schema" else None
    if sorted(syms) != sorted(want_names):
        dev("symbols-differ", "top-level symbols %r != templated names %r" % (syms, want_names), mech=sa_mech or js_mech)
    if allv is None:
        dev("all-missing", "__all__ missing or not a literal list")
    elif sorted(allv) != sorted(want_names):
        dev("all-differs", "__all__ %r != templated names %r" % (allv, want_names), mech=js_mech)
    elif any(a not in syms for a in allv):
        dev("all-names-undefined", "__all__ names undefined symbols: %r vs %r" % (allv, syms), mech=sa_mech)
    # each generated symbol parsed back has the interface of its source entry
    emit_fmt = {"argparse": "argparse"}.get(ek, ek)
    for node in tree.body:
        nm = getattr(node, "name", None) or (node.targets[0].id if isinstance(node, ast.Assign) and isinstance(
            node.targets[0], ast.Name) else None)
        cand = [ir for ir in irs if tpl.format(name=ir["name"]) == nm or (is_sa and ir["name"] == nm)]
        if not cand or nm == "__all__":
            continue
        ir = cand[0]
        pk_ir = kinds[irs.index(ir)]
        try:
            got = hops.parse(ast.unparse(node), emit_fmt)
            P.monitor("symbol.reparsed")
        except Exception as e:
            dev("symbol-unparsable", "generated %s cannot be parsed back as %s: %r" % (nm, emit_fmt, e),
                mech=sa_mech if isinstance(e, AssertionError) and ek == "sqlalchemy_table" else None)
            continue
        # expected interface: the source entry as read by the matching parser, through one hop of the emit format
        try:
            base = hops.parse(hops.emit(ir, pk_ir, **IN_KW.get(pk_ir, {}))[1], pk_ir) if pk != "json_schema" else hops.hop(ir, "json_schema")[1]
            # (the command emits without word wrap unless asked - `--no-word-wrap` is a store_true flag that gen()
            # compares with None - so the expectation is emitted without it too)
            exp = hops.hop(dict(base, name=ir["name"]), emit_fmt, {} if emit_fmt == "json_schema" else {"word_wrap": False})[1]
        except Exception as e:
            P.count("expectation.unavailable")
            continue
        # independent of the emitters / parsers that produced `exp`: names, order and every plain scalar default of
        # the source entry itself
        P.monitor("symbol.defaults-vs-source.compared")
        src_names = [n_ for n_ in ir["params"]]
        got_names = [n_ for n_ in got["params"] if not (is_sa and n_ == "id" and "id" not in ir["params"])]
        if got_names == src_names:
            for pn, sp in ir["params"].items():
                sd = sp.get("default")
                if "default" not in sp or type(sd) not in (int, float, bool, str):
                    continue
                td = got["params"][pn].get("default", "<absent>")
                if type(td) is not type(sd) or td != sd:
                    dev("symbol-default-differs-from-source.t=%s,d=%s" % (irgen.type_kind_of(sp.get("typ")),
                                                                         irgen.default_kind_of(sp)),
                        "generated %s has %s=%r, its source entry has %r" % (nm, pn, td, sd))
        for dd in cmp_ir(exp, got, returns=False):
            dev("symbol-interface.%s.%s.%s" % (dd["where"], dd["field"], dd["how"]),
                "generated %s differs from its source entry: %s %s %s expected %r got %r" % (
                    nm, dd["where"], dd["field"], dd["how"], dd.get("exp"), dd.get("got")), diff=dd)
    if infer_imports:
        P.monitor("imports.resolved")
        missing = sorted(n for n in free_names(tree) if n in TYPING_NAMES or n in SA_NAMES)
        if missing:
            dev("imports-missing", "names used but not imported with --emit-and-infer-imports: %r" % missing)


if __name__ == "__main__":
    sys.exit(core.main(sys.modules[__name__]))
