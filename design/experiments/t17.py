import random, sys, collections, ast, textwrap
from irgen import *
from rtlib import diffs
from copy import deepcopy
import cdd.docstring.emit, cdd.docstring.parse, cdd.function.parse
r=random.Random(1)
buckets=collections.Counter(); ex={}
HEAD=["Summary line here", "Summary line here\n\nLonger description paragraph one\nwith two lines.", "Summary.\n\nPara one.\n\nPara two ends"]
FOOT=["", "\n\nNotes\n-----\nSome note text", "\n\nExample usage:\n\n>>> foo(1)\n2", "\n\nSee also the thing"]
def in_order(needles, hay_lines):
    i=0
    for n in needles:
        while i < len(hay_lines) and hay_lines[i].strip()!=n.strip(): i+=1
        if i==len(hay_lines): return n
        i+=1
    return None
for i in range(60):
    ir=rand_ir(r, kinds=("scalar","optional","literal"), nparams=r.randint(1,4), with_return=r.random()<.5)
    for S in ("rest","google","numpydoc"):
        body = cdd.docstring.emit.docstring({**deepcopy(ir), "doc": ""}, docstring_format=S).strip("\n")
        for h in HEAD:
            for fi,f in enumerate(FOOT):
                doc0 = (h + "\n\n" + body + f)
                for ind in (0,1,2):
                  for mode in ("ir","fn"):
                    doc = doc0 if ind==0 else "\n" + "\n".join(("    "*ind + l if l else l) for l in doc0.split("\n")) + "\n" + "    "*ind
                    try:
                        if mode=="ir":
                            pir = cdd.docstring.parse.docstring(doc)
                        else:
                            src = "def fn(%s):\n    %s\n    pass\n" % (", ".join(ir["params"]), repr(textwrap.indent(doc,"") ))
                            pir = cdd.function.parse.function(ast.parse(src).body[0])
                        for T in ("rest","google","numpydoc"):
                            out = cdd.docstring.emit.docstring(deepcopy(pir), docstring_format=T, indent_level=ind)
                            miss = in_order([l for l in h.split("\n") if l.strip()], out.split("\n"))
                            if miss is not None:
                                key=(S,T,mode,"ind=%d"%ind,"foot=%d"%fi,"header-line-missing"); buckets[key]+=1; ex.setdefault(key,(doc,out,miss))
                            back = cdd.docstring.parse.docstring(out)
                            for d in diffs(ir, back, doc=False):
                                key=(S,T,mode,"ind=%d"%ind,"foot=%d"%fi)+tuple(map(str,d[:2])); buckets[key]+=1; ex.setdefault(key,(doc,out,d))
                            buckets[("n",)]+=1
                    except Exception as e:
                        key=(S,mode,"ind=%d"%ind,"foot=%d"%fi,"EXC",type(e).__name__); buckets[key]+=1; ex.setdefault(key,(doc,repr(e)))
agg=collections.Counter()
for k,v in buckets.items(): agg[k]+=v
for k,v in sorted(agg.items(), key=str): print(v,k)
import pickle; pickle.dump(ex, open("ex17.pkl","wb"))
