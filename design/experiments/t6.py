import sys, random, collections, pprint, traceback
from irgen import *; from rtlib import *
r = random.Random(int(sys.argv[1])); N=int(sys.argv[2])
fmts = sys.argv[3].split(",")
buckets=collections.Counter(); ex={}
for i in range(N):
    ir = rand_ir(r, kinds=tuple(sys.argv[4].split(",")) if len(sys.argv)>4 else ("scalar","optional","literal"))
    for fmt in fmts:
        try:
            src, back = hop(ir, fmt)
        except Exception as e:
            key=(fmt,"EXC",type(e).__name__); buckets[key]+=1; ex.setdefault(key,(ir,traceback.format_exc()[-600:])); continue
        for d in diffs(ir, back):
            key=(fmt,)+tuple(map(str,d[:2]))[:(1 if d[0] in("names","returns-presence") else 2)]
            if d[0] in ("param","return") and d[1]=="default": key += (d[2][0]+"->"+d[3][0], )
            buckets[key]+=1; ex.setdefault(key,(d,src))
for k,v in sorted(buckets.items(), key=lambda kv: str(kv[0])): print(v,k)
for k,v in ex.items():
    print("-----",k); pprint.pprint(v[0]); print(v[1])
