import random, re
from collections import OrderedDict
NAMES = ["alpha","beta","gamma","delta","eps","zeta","eta","theta","iota","kappa","lam","mu","nu","xi","omicron","pi_","rho","sigma","tau","ups"]
WORDS = ["the","value","used","for","training","loops","over","batch","with","size","amount","kind","thing","that","matters","when","running","fast","slow","route"]
SCALARS = ["int","float","str","bool"]
def rand_doc(r, n=None):
    n = n or r.randint(1,6)
    return " ".join(r.choice(WORDS) for _ in range(n))
def rand_default(r, typ):
    base = typ
    m = re.match(r"Optional\[(.*)\]$", typ)
    if m: base = m.group(1)
    if base == "int": return r.choice([0,1,5,-3,42,-100, 7])
    if base == "float": return r.choice([0.5,-1.5,3.25,1e-07,-0.001, 2.0])
    if base == "str": return r.choice(["hello","mnist","a_b","x y", "~/dir", "np"])
    if base == "bool": return r.choice([True, False])
    if base.startswith("Literal["):
        import ast
        return r.choice(ast.literal_eval(base[len("Literal"):]))
    return None
def rand_type(r, kinds=("scalar","optional","literal","list","union","dotted")):
    k = r.choice(kinds)
    if k=="scalar": return r.choice(SCALARS)
    if k=="optional": return "Optional[%s]" % r.choice(SCALARS)
    if k=="literal":
        n=r.randint(2,4); mem=r.sample(["np","tf","torch","jax","aa","bb","cc"], n)
        return "Literal[%s]" % ", ".join(repr(m) for m in mem)
    if k=="list": return "List[%s]" % r.choice(SCALARS)
    if k=="union": return "Union[%s]" % ", ".join(r.sample(SCALARS,2))
    if k=="dotted": return r.choice(["np.ndarray","tf.data.Dataset","collections.OrderedDict"])
def rand_ir(r, nparams=None, kinds=("scalar","optional","literal","list","union","dotted"), suffix_defaults=True, with_return=None, name="Foo", nodefault_prob=0.4, doc_prob=1.0):
    n = r.randint(0,6) if nparams is None else nparams
    names = r.sample(NAMES, n)
    params = OrderedDict()
    first_default = r.randint(0,n) if suffix_defaults else None
    for i,nm in enumerate(names):
        typ = rand_type(r, kinds)
        p = {"typ": typ}
        if r.random() < doc_prob: p["doc"] = rand_doc(r)
        has_def = (i >= first_default) if suffix_defaults else (r.random() > nodefault_prob)
        if has_def:
            d = rand_default(r, typ)
            if d is None and typ.startswith("Optional["): 
                pass
            if d is not None: p["default"] = d
            elif suffix_defaults:
                # types w/o generatable default: use scalar instead to keep suffix property
                p["typ"] = "int"; p["default"] = r.choice([1,2,3])
        params[nm] = p
    ir = {"name": name, "type":"static", "doc": rand_doc(r, r.randint(2,8)), "params": params, "returns": None}
    wr = r.random()<0.5 if with_return is None else with_return
    if wr:
        ir["returns"] = OrderedDict([("return_type", {"typ": rand_type(r, kinds), "doc": rand_doc(r)})])
    return ir
