import sys, json, random, re, collections, pprint
from copy import deepcopy
from irgen import *
from t2lib import *
import cdd.docstring.emit, cdd.docstring.parse
r = random.Random(int(sys.argv[1]) if len(sys.argv)>1 else 0)
N=int(sys.argv[2]) if len(sys.argv)>2 else 300
buckets=collections.Counter(); ex={}
tot=0
for i in range(N):
    ir = rand_ir(r)
    for style in ("rest","google","numpydoc"):
      for edd_emit in (True,False):
       for edd_parse in (True, False):
        for et in (True,False):
         for ww in (True,False):
          tot+=1
          try:
            ds = cdd.docstring.emit.docstring(deepcopy(ir), docstring_format=style, emit_default_doc=edd_emit, emit_types=et, word_wrap=ww)
            back = cdd.docstring.parse.docstring(ds, emit_default_doc=edd_parse)
          except Exception as e:
            key=(style,"EXC",type(e).__name__, "et=%s"%et); buckets[key]+=1; ex.setdefault(key,((edd_emit,edd_parse,et,ww),ir,repr(e))); continue
          exp = deepcopy(ir)
          if not et:
              for p in list(exp["params"].values())+([exp["returns"]["return_type"]] if exp["returns"] else []): p.pop("typ",None)
              for p in list(back["params"].values())+([back["returns"]["return_type"]] if back.get("returns") else []): p.pop("typ",None)
          if not edd_emit:
              for p in exp["params"].values(): p.pop("default",None)
          for d in cmp_ir(exp, back):
            key=(style,"edd_emit=%s"%edd_emit, "edd_parse=%s"%edd_parse, "et=%s"%et)+tuple(map(str,d[:2]))[:(1 if d[0] in("names","returns-presence") else 2)]; buckets[key]+=1; ex.setdefault(key,((edd_emit,edd_parse,et,ww),d,ds))
print(tot,"cases")
for k,v in sorted(buckets.items(), key=lambda kv: str(kv[0])): print(v,k)
if len(sys.argv)>3:
  for k,v in ex.items():
    print("-----",k); pprint.pprint(v[:2]); print(v[2])
