import sys, random, collections, inspect, argparse, typing, traceback, ast
from typing import *
from irgen import *; from rtlib import *
r=random.Random(3); buckets=collections.Counter(); ex={}
def note(k, v): buckets[k]+=1; ex.setdefault(k, v)
for i in range(150):
    ir = rand_ir(r, kinds=("scalar","optional","literal","list","union"), nparams=r.randint(1,5))
    for style in ("rest","google","numpydoc"):
        # class
        for fmt in ("class","function","argparse"):
          try:
            irc = deepcopy(ir)
            if fmt=="class": node = cdd.class_.emit.class_(irc, class_name="K", docstring_format=style)
            elif fmt=="function": node = cdd.function.emit.function(irc, function_name="fn", function_type="static", docstring_format=style, emit_as_kwonlyargs=r.random()<.5)
            else: node = cdd.argparse_function.emit.argparse_function(irc, docstring_format=style)
            src = to_code(node)
            if ast.dump(ast.parse(src).body[0]) != ast.dump(ast.parse(to_code(ast.parse(src))).body[0]): note((fmt,"unparse-reparse"), src)
            ns = {"__name__":"emitted", **{k:getattr(typing,k) for k in typing.__all__}, "loads": __import__("json").loads}
            exec(compile(src, "<emitted>", "exec"), ns)
            if fmt=="class":
                K=ns["K"]
                for n,p in ir["params"].items():
                    if "default" in p:
                        if getattr(K,n,"<missing>") != p["default"] or type(getattr(K,n)) is not type(p["default"]): note((fmt,"attr-default",p["typ"].split("[")[0]), (src,n))
                    ann = K.__annotations__.get(n)
                    if ann != eval(p["typ"], ns): note((fmt,"annotation"), (src,n))
            elif fmt=="function":
                sig = inspect.signature(ns["fn"])
                if list(sig.parameters)!=list(ir["params"]): note((fmt,"names"), src)
                for n,p in ir["params"].items():
                    d = sig.parameters[n].default
                    want = p.get("default", None)
                    if d != want or type(d) is not type(want): note((fmt,"default"), (src,n,d,want))
            else:
                ap = argparse.ArgumentParser(); ns["set_cli_args"](ap)
                acts = {a.dest:a for a in ap._actions if a.dest!="help"}
                if list(acts)!=list(ir["params"]): note((fmt,"names"), src)
                for n,p in ir["params"].items():
                    a=acts[n]; typ=p["typ"]
                    base = typ[len("Optional["):-1] if typ.startswith("Optional[") else typ
                    if base in ("int","float","bool","str"):
                        want = {"int":int,"float":float,"bool":bool,"str":None}[base]
                        if a.type is not want and not (base=="str" and a.type is str): note((fmt,"type",base), (src,n,a.type))
                    if base.startswith("Literal["):
                        mem = ast.literal_eval(base[len("Literal"):])
                        if tuple(a.choices or ())!=tuple(mem): note((fmt,"choices"), (src,n,a.choices))
                    if "default" in p and a.default != p["default"]: note((fmt,"default"), (src,n,a.default))
                    if "default" not in p and a.default is not None: note((fmt,"default-invented"), (src,n,a.default))
                    if typ.startswith("Optional[") and a.required: note((fmt,"optional-required"), (src,n))
                    if a.required and "default" in p: note((fmt,"required-with-default", ), (src,n))
                    if (a.help or "").rstrip(".") != (p.get("doc") or "").rstrip("."): note((fmt,"help"), (src,n,a.help))
            buckets[(fmt,"ok-run")]+=1
          except Exception as e:
            note((fmt,"EXC",type(e).__name__, str(e)[:50]), (ir, traceback.format_exc()[-400:]))
for k,v in sorted(buckets.items(), key=str): print(v,k)
import pprint
for k,v in ex.items():
    print("----",k); 
    for x in (v if isinstance(v,tuple) else (v,)): print(x if isinstance(x,str) else pprint.pformat(x))
