import sys, dis, os
events=[]
def hook(ev, args):
    if ev in ("exec","compile","import","open","os.system","subprocess.Popen","socket.connect","os.mkdir","os.remove","os.rename","os.rmdir","builtins.input","ctypes.dlopen","os.exec","os.posix_spawn","os.fork") or ev.startswith(("socket.","subprocess.","os.spawn","shutil.")):
        events.append((ev, args))
import cdd.docstring.parse, cdd.function.parse, cdd.class_.parse, ast
sys.addaudithook(hook)
CALL_OPS={"CALL","CALL_FUNCTION_EX","CALL_KW","CALL_INTRINSIC_1","CALL_INTRINSIC_2","IMPORT_NAME","IMPORT_FROM","IMPORT_STAR"}
def analyse(code):
    return sorted({i.opname for i in dis.get_instructions(code)})
doc='''
Summary

:param a: Either `__import__('os').system('touch /tmp/x/PWNED')` or `open('/tmp/x/PWNED2','w')`. Defaults to __import__('os').system('touch /tmp/x/PWNED3')
:type a: ```__import__('os').system('touch /tmp/x/PWNED4')```

:param b: number of things or `sys.exit`, one of `os.getcwd` or `ast.parse`
:param c: list of `str` or int
'''
ir = cdd.docstring.parse.docstring(doc)
print(ir["params"])
for ev,args in events:
    if ev=="exec":
        code=args[0]; print("EXEC", code.co_filename, code.co_name, analyse(code))
    elif ev=="compile": print("COMPILE", repr(args[0])[:80], args[1])
    elif ev=="open": print("OPEN", args[0], args[1])
    else: print(ev, str(args)[:100])
print(os.path.exists('/tmp/x/PWNED'), os.path.exists('/tmp/x/PWNED3'))
