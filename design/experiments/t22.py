import sys, random, collections, ast, traceback
from collections import OrderedDict
from irgen import *; from rtlib import *
import irgen
def shape(ir, strict_keys=True):
    errs=[]
    if not isinstance(ir, dict): return ["not-dict"]
    if "name" not in ir: errs.append("no-name-key")
    if not isinstance(ir.get("doc"), str): errs.append("doc-not-str:%s"%type(ir.get("doc")).__name__)
    ps = ir.get("params")
    if not isinstance(ps, dict): errs.append("params-not-mapping"); ps={}
    rt = ir.get("returns")
    if rt is not None and (not isinstance(rt, dict) or list(rt)!=["return_type"]): errs.append("returns-shape:%r"%(list(rt) if isinstance(rt,dict) else type(rt).__name__))
    def entry(tag,k,v):
        if not isinstance(v, dict): errs.append(tag+"-entry-not-dict"); return
        extra=set(v)-{"typ","doc","default","x_typ"}
        if extra and strict_keys: errs.append(tag+"-extra-keys:%s"%sorted(extra))
        if "typ" in v:
            if not isinstance(v["typ"], str): errs.append(tag+"-typ-not-str:%s"%type(v["typ"]).__name__)
            else:
                try: ast.parse(v["typ"], mode="eval")
                except SyntaxError: errs.append(tag+"-typ-unparsable")
                if v["typ"]=="": errs.append(tag+"-typ-empty")
        if "doc" in v and not isinstance(v["doc"], str): errs.append(tag+"-doc-not-str:%s"%type(v["doc"]).__name__)
    for k,v in ps.items():
        if not isinstance(k,str) or not k: errs.append("name-empty-or-nonstr:%r"%(k,))
        elif k.startswith("*"): errs.append("name-asterisk")
        entry("param",k,v)
    for k,v in (rt or {}).items(): entry("return",k,v)
    return errs
r=random.Random(5); buckets=collections.Counter(); ex={}
FM=["docstring","class","pydantic","function","argparse","json_schema","sqlalchemy","sqlalchemy_table","sqlalchemy_hybrid"]
for i in range(150):
    for f in FM:
        kinds=("scalar","optional","literal") if f in("json_schema",) or f.startswith("sql") else ("scalar","optional","literal","list","union","dotted")
        ir=rand_ir(r, kinds=kinds)
        if f.startswith("sql"):
            for p in ir["params"].values():
                if p["typ"].startswith("Optional["): p.pop("default",None)
        for style in ("rest","google","numpydoc"):
            try:
                kw={} if f=="json_schema" else {"docstring_format":style}
                src, back = hop(ir, f, **kw)
            except Exception as e:
                buckets[(f,style,"EXC",type(e).__name__)]+=1; continue
            es=shape(back)
            for e in es: buckets[(f,style,e)]+=1; ex.setdefault((f,style,e),(src,back))
            if not es: buckets[(f,style,"ok")]+=1
for k,v in sorted(buckets.items(), key=str): print(v,k)
