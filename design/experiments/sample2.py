"""Module doc"""
import os

CONST = 5  # a comment


# leading comment
def plain(a, b):
    """
    Do the plain

    :param a: the a
    :type a: ```str```

    :param b: the b
    :type b: ```int```

    :return: something
    :rtype: ```bool```
    """
    x = a  # trailing comment
    if x:
        return True
    return False


def nodoc(a, b=5, *args, c=3, **kwargs):
    return a


@staticmethod
def typed(a: str, b: int = 5) -> bool:
    """
    Typed

    :param a: the a

    :param b: the b

    :return: something
    """
    return True


class K(object):
    """K doc

    :cvar z: the z
    """

    z: int = 1

    def m(self, q):
        """
        M doc

        :param q: q thing
        :type q: ```int```
        """
        return q
