"""Module doc"""
import os

# leading comment
def foo(a, b=5, *args, c: int = 3, **kwargs):
    """
    Do the foo

    :param a: the a
    :type a: ```str```

    :param b: the b
    :type b: ```int```

    :return: something
    :rtype: ```bool```
    """
    x = a  # trailing comment
    return True


class K(object):
    """K doc

    :cvar z: the z
    """
    z: int = 1

    @staticmethod
    def m(q=(1, 2), *, r="s"):
        """
        M doc

        :param q: q thing
        :param r: r thing
        """
        return q


async def af(t: float = 1.5) -> int:
    """AF

    :param t: tee
    """
    return 1
