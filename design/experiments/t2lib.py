import re
def norm_doc(d):
    if d is None: return ""
    d = re.sub(r"\.?\s*Defaults to .*$", "", d, flags=re.S)
    d = " ".join(d.split())
    return d.rstrip(".")
def cmp_ir(a, b, check_doc=True):
    diffs=[]
    ka, kb = list(a["params"]), list(b["params"])
    if ka!=kb: diffs.append(("names", ka, kb)); return diffs
    def cmp_param(tag, pa, pb):
        if pa.get("typ")!=pb.get("typ"): diffs.append((tag,"typ",pa.get("typ"),pb.get("typ")))
        da, db = pa.get("default","<none>"), pb.get("default","<none>")
        if da!=db or type(da)!=type(db): diffs.append((tag,"default",repr(da),repr(db), pa.get("typ")))
        if check_doc and norm_doc(pa.get("doc"))!=norm_doc(pb.get("doc")): diffs.append((tag,"doc",pa.get("doc"),pb.get("doc")))
    for k in ka: cmp_param("param", a["params"][k], b["params"][k])
    ra = (a.get("returns") or {}).get("return_type"); rb=(b.get("returns") or {}).get("return_type")
    if (ra is None)!=(rb is None): diffs.append(("returns-presence", ra, rb))
    elif ra is not None: cmp_param("return", ra, rb)
    return diffs
