import ast, sys, tokenize, io
def erase(tree):
    for n in ast.walk(tree):
        if isinstance(n,(ast.FunctionDef,ast.AsyncFunctionDef,ast.ClassDef,ast.Module)):
            if n.body and isinstance(n.body[0],ast.Expr) and isinstance(getattr(n.body[0],'value',None),ast.Constant) and isinstance(n.body[0].value.value,str):
                n.body=n.body[1:] or [ast.Pass()]
        if isinstance(n,(ast.FunctionDef,ast.AsyncFunctionDef)):
            n.returns=None; n.type_comment=None
        if isinstance(n,ast.arg): n.annotation=None; n.type_comment=None
    class T(ast.NodeTransformer):
        def visit_AnnAssign(self,n):
            if n.value is None: return ast.Pass()  # bare annotation
            return ast.Assign(targets=[n.target], value=n.value)
        def visit_Assign(self,n): n.type_comment=None; return n
    tree=T().visit(tree)
    return ast.dump(tree)
def comments(s): return [t.string for t in tokenize.generate_tokens(io.StringIO(s).readline) if t.type==tokenize.COMMENT]
a=open(sys.argv[1]).read(); b=open(sys.argv[2]).read()
print("ast-equal-mod-doc:", erase(ast.parse(a))==erase(ast.parse(b)), "comments:", comments(a)==comments(b))
