import ast, json, hashlib
import cdd.function.parse, cdd.class_.parse, cdd.class_.emit, cdd.argparse_function.emit, cdd.sqlalchemy.emit, cdd.json_schema.emit
from cdd.shared.source_transformer import to_code
src='''
def f(alpha, beta, gamma=3, delta="x", eps: int = 5, zeta=None, eta=1.5, theta=True):
    """
    Doc

    :param gamma: the gamma
    :type gamma: ```int```
    """
    return gamma
'''
ir = cdd.function.parse.function(ast.parse(src).body[0])
print(list(ir["params"]))
out = to_code(cdd.class_.emit.class_(ir, class_name="C"))
out += to_code(cdd.argparse_function.emit.argparse_function(cdd.function.parse.function(ast.parse(src).body[0])))
print(hashlib.sha1(out.encode()).hexdigest())
