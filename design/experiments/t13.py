import sys, os, random, itertools, time
from cdd.shared.cst import cst_parse
from cdd.shared.cst_utils import cst_scanner
def check(src):
    nodes = cst_parse(src)
    out = "".join(n.value for n in nodes)
    errs=[]
    if out != src: errs.append("concat")
    if "".join(cst_scanner(src)) != src: errs.append("scan-concat")
    prev_end = 1
    for i,n in enumerate(nodes):
        if n.line_no_start != prev_end: errs.append(("tile", i)); break
        if n.line_no_end - n.line_no_start != n.value.count("\n"): errs.append(("span", i)); break
        prev_end = n.line_no_end
    return errs
bad=0; n=0; t=time.time()
for dp, dn, fn in os.walk('/repo/cdd'):
    for f in fn:
        if f.endswith('.py'):
            p=os.path.join(dp,f); s=open(p).read()
            if len(s) > 60000: continue
            n+=1
            e=check(s)
            if e: bad+=1; print(p, e[:3])
print(n, "files", bad, "bad", time.time()-t)
ALPHA=["\n","    ",'"',"'",'"""',"'''","#","\\","(",")","[","]","{","}",":","=","@",";","def","class","x"," "]
cnt=0; badc=0
for L in range(0,4):
    for seq in itertools.product(ALPHA, repeat=L):
        s="".join(seq); cnt+=1
        try: e=check(s)
        except Exception as ex: e=[repr(ex)]
        if e:
            badc+=1
            if badc<10: print(repr(s), e)
print(cnt, badc, time.time()-t)
