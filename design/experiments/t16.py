import random, sys, collections
from irgen import *
from copy import deepcopy
import cdd.docstring.emit
from cdd.shared.docstring_utils import parse_docstring_into_header_args_footer
r=random.Random(0)
buckets=collections.Counter(); ex={}
HEAD=["Summary line here", "Summary line here\n\nLonger description paragraph one\nwith two lines.", "Summary.\n\nPara one.\n\nPara two ends"]
FOOT=["", "\n\nNotes\n-----\nSome note text", "\n\nExample usage:\n\n>>> foo(1)\n2", "\n\nSee also the thing"]
for i in range(100):
    ir=rand_ir(r, kinds=("scalar","optional","literal"), nparams=r.randint(1,4))
    for style in ("rest","google","numpydoc"):
        body = cdd.docstring.emit.docstring({**deepcopy(ir), "doc": ""}, docstring_format=style).strip("\n")
        for h in HEAD:
            for f in FOOT:
                doc0 = (h + ("\n\n" if h else "") + body + f)
                for ind in (1,2):
                  for blank_ind in (True, False):
                    doc = "\n" + "\n".join(("    "*ind + l if (l or blank_ind) else l) for l in doc0.split("\n")) + "\n" + "    "*ind
                    try:
                        H,A,F = parse_docstring_into_header_args_footer(doc0, doc)
                    except Exception as e:
                        key=(style,"EXC",type(e).__name__, ind); buckets[key]+=1; ex.setdefault(key,doc); continue
                    cat=(H or "")+(A or "")+(F or "")
                    if cat!=doc:
                        key=(style,"concat",ind, blank_ind, FOOT.index(f)); buckets[key]+=1; ex.setdefault(key,(doc,H,A,F))
                    else: buckets[(style,"ok",ind, blank_ind)]+=1
for k,v in sorted(buckets.items(), key=str): print(v,k)
for k,v in list(ex.items())[:4]:
    print("----",k); 
    if isinstance(v,tuple):
        for x in v: print(repr(x))
    else: print(repr(v))
