import subprocess, sys, os, pkgutil
root='/repo/cdd'
mods=[]
for dp, dn, fn in os.walk(root):
    if 'tests' in dp.split(os.sep): continue
    for f in fn:
        if f.endswith('.py'):
            p=os.path.relpath(os.path.join(dp,f), '/repo')[:-3].replace(os.sep,'.')
            if p.endswith('.__init__'): p=p[:-9]
            mods.append(p)
mods.sort()
print(len(mods))
bad=[]
for m in mods:
    if m=='cdd.__main__': pass
    r=subprocess.run(['/venv/bin/python','-c',f'import {m}'],capture_output=True,text=True,cwd='/tmp/x')
    if r.returncode: 
        bad.append(m); print('FAIL',m, r.stderr.strip().splitlines()[-1])
print(len(bad),'bad')
