import ast, re
from copy import deepcopy
from collections import OrderedDict
import cdd.class_.emit, cdd.class_.parse, cdd.pydantic.emit, cdd.pydantic.parse
import cdd.function.emit, cdd.function.parse, cdd.argparse_function.emit, cdd.argparse_function.parse
import cdd.docstring.emit, cdd.docstring.parse
import cdd.json_schema.emit, cdd.json_schema.parse
import cdd.sqlalchemy.emit, cdd.sqlalchemy.parse
from cdd.shared.source_transformer import to_code
from cdd.shared.ast_utils import NoneStr

def hop(ir, fmt, **kw):
    """emit -> text -> re-parse -> IR"""
    ir = deepcopy(ir)
    if fmt == "class":
        node = cdd.class_.emit.class_(ir, class_name=ir["name"], **kw)
        src = to_code(node); mod = ast.parse(src)
        return src, cdd.class_.parse.class_(mod.body[0])
    if fmt == "pydantic":
        node = cdd.pydantic.emit.pydantic(ir, class_name=ir["name"], **kw)
        src = to_code(node); mod = ast.parse(src)
        return src, cdd.pydantic.parse.pydantic(mod.body[0])
    if fmt == "function":
        node = cdd.function.emit.function(ir, function_name=ir["name"], function_type="static", **kw)
        src = to_code(node); mod = ast.parse(src)
        return src, cdd.function.parse.function(mod.body[0])
    if fmt == "argparse":
        node = cdd.argparse_function.emit.argparse_function(ir, **kw)
        src = to_code(node); mod = ast.parse(src)
        return src, cdd.argparse_function.parse.argparse_ast(mod.body[0])
    if fmt == "docstring":
        src = cdd.docstring.emit.docstring(ir, **kw)
        return src, cdd.docstring.parse.docstring(src)
    if fmt == "json_schema":
        d = cdd.json_schema.emit.json_schema(ir, **kw)
        import json; src = json.dumps(d)
        return src, cdd.json_schema.parse.json_schema(json.loads(src))
    if fmt in ("sqlalchemy","sqlalchemy_table","sqlalchemy_hybrid"):
        node = getattr(cdd.sqlalchemy.emit, fmt)(ir, **({"class_name": ir["name"]} if fmt!="sqlalchemy_table" else {"name": ir["name"]}), **kw)
        src = to_code(node); mod = ast.parse(src)
        return src, getattr(cdd.sqlalchemy.parse, fmt)(mod.body[0])
    raise ValueError(fmt)

def norm_doc(d):
    if d is None: return ""
    d = re.sub(r"\.?\s*Defaults to .*$", "", d, flags=re.S)
    d = " ".join(d.split())
    return d.rstrip(".")
def view(ir, doc=True):
    def pv(p):
        out = {"typ": p.get("typ"), "default": p["default"] if "default" in p else "<absent>"}
        out["default"] = (type(out["default"]).__name__, out["default"])
        if doc: out["doc"] = norm_doc(p.get("doc"))
        return out
    return {"params": [(k, pv(v)) for k, v in ir["params"].items()],
            "returns": ({k: pv(v) for k, v in ir["returns"].items()} if ir.get("returns") else None)}
def diffs(a, b, doc=True):
    va, vb = view(a, doc), view(b, doc)
    out = []
    na, nb = [k for k,_ in va["params"]], [k for k,_ in vb["params"]]
    if na != nb: return [("names", na, nb)]
    for (k, pa), (_, pb) in zip(va["params"], vb["params"]):
        for f in pa:
            if pa[f] != pb[f]: out.append(("param", f, pa[f], pb[f], pa["typ"]))
    ra, rb = va["returns"], vb["returns"]
    if (ra is None) != (rb is None): out.append(("returns-presence", ra, rb))
    elif ra:
        for f in ra["return_type"]:
            if ra["return_type"][f] != rb.get("return_type",{}).get(f): out.append(("return", f, ra["return_type"][f], rb.get("return_type",{}).get(f), ra["return_type"]["typ"]))
    return out
