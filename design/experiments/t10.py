import sys, random, collections, pprint, traceback, itertools
from irgen import *; from rtlib import *
r = random.Random(int(sys.argv[1])); N=int(sys.argv[2])
FM=["class","pydantic","function","argparse","docstring"]
buckets=collections.Counter(); ex={}
for i in range(N):
    ir = rand_ir(r, kinds=("scalar","optional","literal"), with_return=False)
    for L in (1,2):
      for seq in itertools.product(FM, repeat=L):
        cur = ir; ok=True
        try:
            for f in seq:
                src, cur = hop(cur, f)
                cur["name"]=ir["name"]
        except Exception as e:
            key=(seq,"EXC",type(e).__name__); buckets[key]+=1; ex.setdefault(key,(ir,traceback.format_exc()[-500:])); continue
        for d in diffs(ir, cur, doc=False):
            key=(seq,)+tuple(map(str,d[:2]))[:(1 if d[0] in("names","returns-presence") else 2)]
            if d[0] in ("param","return") and d[1]=="default": key += (d[4], str(d[2])+"->"+str(d[3]), )
            if d[0] in ("param","return") and d[1]=="typ": key += (str(d[2])+"->"+str(d[3]), )
            buckets[key]+=1; ex.setdefault(key,(d,src))
# collapse
agg=collections.Counter()
for k,v in buckets.items():
    kk=(k[0],)+tuple(re.sub(r"Literal\[[^\]]*\]","Literal[..]",re.sub(r"-?\d+(\.\d+)?(e-?\d+)?","N",str(x))) for x in k[1:])
    agg[kk]+=v
for k,v in sorted(agg.items(), key=lambda kv: str(kv[0])): print(v,k)
