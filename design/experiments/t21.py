import sys, time, collections
from collections import OrderedDict
import cdd.docstring.emit, cdd.docstring.parse
from cdd.shared.cst import cst_parse
mon = sys.monitoring; TOOL=4
class BudgetExceeded(BaseException): pass
state={"n":0,"budget":0,"hist":collections.Counter(),"on":False}
def on_line(code, line):
    if not state["on"]: return
    if "/cdd/" not in code.co_filename: return mon.DISABLE
    state["n"]+=1
    if state["n"] > state["budget"] - 2000: state["hist"][(code.co_filename.rsplit('/cdd/',1)[1], line)]+=1
    if state["n"] > state["budget"]:
        state["on"]=False
        raise BudgetExceeded()
mon.use_tool_id(TOOL,"vcdd"); mon.register_callback(TOOL, mon.events.LINE, on_line); mon.set_events(TOOL, mon.events.LINE)
def run(f, *a, budget=200000, **k):
    mon.restart_events()
    state.update(n=0,budget=budget,on=True); state["hist"].clear()
    t=time.time()
    try:
        try: r=("ok", f(*a, **k))
        except BudgetExceeded: r=("BUDGET", state["hist"].most_common(3))
        except Exception as e: r=("raised", repr(e)[:60])
    finally: state["on"]=False
    return r[0], state["n"], round(time.time()-t,3), (r[1] if r[0]!="ok" else None)
ir={"name":"f","type":"static","doc":"   \nSummary","params":OrderedDict([("a",{"typ":"int","doc":"x"})]),"returns":None}
print(run(cdd.docstring.emit.docstring, ir))
ir["doc"]="Summary"
print(run(cdd.docstring.emit.docstring, ir))
src=open('/repo/cdd/shared/cst.py').read(); print(len(src), run(cst_parse, src, budget=10**8))
src=open('/repo/cdd/docstring/emit.py').read(); print(len(src), run(cst_parse, src, budget=10**9))
doc=cdd.docstring.emit.docstring(ir)*1
print(len(doc), run(cdd.docstring.parse.docstring, doc))
