import os, sys, shutil, hashlib, io, textwrap, subprocess, json
SP = sys.argv[1]; dry = sys.argv[2]=="dry"; emit=sys.argv[3]
pkg = "pkgroot_x"
root = os.path.join(SP, pkg)
if os.path.exists(root): shutil.rmtree(root)
os.makedirs(os.path.join(root, "gen"))
def w(p, s):
    os.makedirs(os.path.dirname(p), exist_ok=True); open(p,"w").write(textwrap.dedent(s))
w(os.path.join(root,"__init__.py"), f'''
    from {pkg}.gen import *
    __author__ = "me"
    __version__ = "0.0.0"
    __all__ = ["__author__", "__version__", "parent", "child"]
    ''')
hier = [("parent","parent_dir"),("child","parent_dir/child_dir")]
w(os.path.join(root,"gen","__init__.py"), "\n".join(f"from {pkg}.gen.{d.replace('/','.')} import {n}" for n,d in hier) + "\n__all__ = %r\n" % [n for n,_ in hier])
CLS = '''
    class {cls}(object):
        """
        Acquire the thing

        :cvar dataset_name: name of dataset.
        :cvar as_numpy: Convert to numpy ndarrays
        """
        dataset_name: str = "mnist"
        as_numpy: Optional[bool] = None
'''
for n,d in hier:
    cls = n.title()+"Class"
    w(os.path.join(root,"gen",d,"__init__.py"), f"from .{n} import {cls}\n\n__all__ = [{cls!r}]\n")
    w(os.path.join(root,"gen",d,n+".py"), "from typing import Optional\n" + textwrap.dedent(CLS.format(cls=cls)) + f"\n__all__ = [{cls!r}]\n")
def snap(top):
    out={}
    for dp, dn, fn in os.walk(top):
        out[dp]=("dir",)
        for f in fn:
            p=os.path.join(dp,f)
            if "__pycache__" in p: continue
            out[p]=("file", hashlib.sha1(open(p,"rb").read()).hexdigest())
    return {k:v for k,v in out.items() if "__pycache__" not in k}
outdir = os.path.join("/tmp/x/exo", "parent", "out"); shutil.rmtree("/tmp/x/exo", ignore_errors=True); os.makedirs("/tmp/x/exo/parent/out")
before = {**snap(SP.rsplit("/lib/",1)[0]), **snap("/tmp/x/exo")}
from cdd.compound.exmod import exmod
import cdd.compound.exmod_utils
try:
    exmod(module=f"{pkg}.gen", emit_name=emit, blacklist=tuple(), whitelist=tuple(), mock_imports=True, emit_sqlalchemy_submodule=True, output_directory=outdir, target_module_name="gold", extra_modules=None, no_word_wrap=None, recursive=False, dry_run=dry)
except Exception as e:
    import traceback; traceback.print_exc()
after = {**snap(SP.rsplit("/lib/",1)[0]), **snap("/tmp/x/exo")}
added = sorted(set(after)-set(before)); changed=sorted(k for k in before if k in after and before[k]!=after[k]); removed=sorted(set(before)-set(after))
print("ADDED"); [print(" ",a) for a in added]
print("CHANGED", changed); print("REMOVED", removed)
