import sys, random, collections, pprint, traceback, json
from irgen import *; from rtlib import *
import irgen
irgen.WORDS += ["number","whether","list of","path","string","or"]
r = random.Random(int(sys.argv[1])); N=int(sys.argv[2])
FM=["docstring","class","pydantic","function","argparse","json_schema","sqlalchemy","sqlalchemy_table","sqlalchemy_hybrid"]
buckets=collections.Counter(); ex={}
def canon(ir):
    return json.dumps({"params":[(k,{kk:repr(vv) for kk,vv in v.items()}) for k,v in ir["params"].items()], "returns": {k:{kk:repr(vv) for kk,vv in v.items()} for k,v in (ir.get("returns") or {}).items()}, "doc": ir.get("doc")}, sort_keys=True)
for i in range(N):
    ir = rand_ir(r, kinds=("scalar","optional","literal","list","union","dotted"), suffix_defaults=r.random()<.5)
    for f in FM:
        if f=="json_schema": ir2 = rand_ir(r, kinds=("scalar","optional","literal"))
        elif f.startswith("sqlalchemy"):
            ir2 = rand_ir(r, kinds=("scalar","optional","literal"))
            for p in ir2["params"].values():
                if p["typ"].startswith("Optional[") : p.pop("default",None)
        else: ir2 = ir
        cur = ir2; hist=[]
        try:
            for k in range(4):
                src, cur = hop(cur, f); cur["name"]="Foo"; hist.append(canon(cur))
        except Exception as e:
            key=(f,"EXC@%d"%len(hist),type(e).__name__, str(e)[:40]); buckets[key]+=1; ex.setdefault(key,(ir2,traceback.format_exc()[-300:])); continue
        for k in range(1,4):
            if hist[k]!=hist[k-1]:
                a=json.loads(hist[k-1]); b=json.loads(hist[k])
                what=[]
                if a["doc"]!=b["doc"]: what.append("doc")
                if [x[0] for x in a["params"]]!=[x[0] for x in b["params"]]: what.append("names")
                else:
                    for (n,pa),(_,pb) in zip(a["params"],b["params"]):
                        for kk in set(pa)|set(pb):
                            if pa.get(kk)!=pb.get(kk): what.append("param."+kk)
                if a["returns"]!=b["returns"]: what.append("returns")
                key=(f,"drift round %d->%d"%(k,k+1), tuple(sorted(set(what)))); buckets[key]+=1; ex.setdefault(key,(hist[k-1],hist[k]))
                break
        else: buckets[(f,"stable")]+=1
for k,v in sorted(buckets.items(), key=str): print(v,k)
for k,v in ex.items():
    print("-----",k); 
    for x in v: print(x if isinstance(x,str) else pprint.pformat(x))
